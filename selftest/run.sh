#!/bin/bash
# usage: run.sh [id...]   Applies each mutant to a scratch copy of /repo (outside /repo and
# /verif), runs the property check against the copy and requires a VIOLATION that names the
# expected obligation. The scratch copy is removed afterwards.
here="$(cd "$(dirname "$0")" && pwd)"
ids="$@"; [ -z "$ids" ] && ids=$(ls "$here/mutants"/*.json | xargs -n1 basename | sed 's/.json$//')
fail=0
for id in $ids; do
  prop=$(jq -r .property "$here/mutants/$id.json"); expect=$(jq -r .expect "$here/mutants/$id.json")
  miss=$(jq -r '.known_miss // empty' "$here/mutants/$id.json")
  if [ -n "$miss" ]; then echo "MUTANT $id ($prop): known miss, skipped ($miss)"; continue; fi
  scratch=$(mktemp -d /var/tmp/gvcrepo.XXXX)
  rsync -a --exclude .git /repo/ "$scratch/"
  if ! (cd "$scratch" && patch -s -p1 < "$here/mutants/$id.patch"); then echo "MUTANT $id: patch does not apply"; fail=1; rm -rf "$scratch"; continue; fi
  out=$(VERIF_REPO="$scratch" "$here/../check" "$prop" quick 2>&1); code=$?
  rm -rf "$scratch"
  if [ $code -eq 1 ] && echo "$out" | grep "^VIOLATION" | grep -qF -- "$expect"; then
    n=$(echo "$out" | grep -c "^VIOLATION")
    echo "MUTANT $id ($prop): caught ($n violations, expected obligation '$expect' among them)"
  else
    echo "MUTANT $id ($prop): NOT CAUGHT (exit $code)"; echo "$out" | grep "VIOLATION\|ERROR\|property" | head -5; fail=1
  fi
done
exit $fail
