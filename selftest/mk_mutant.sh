#!/bin/bash
# usage: mk_mutant.sh <id> <property> <file> <sed-expression> [expected-obligation-substring]
# Creates mutants/<id>.patch from a sed edit of /repo/<file> (applied to a scratch copy).
set -e
id="$1"; prop="$2"; file="$3"; expr="$4"; expect="$5"
tmp=$(mktemp -d /var/tmp/gvcmut.XXXX)
mkdir -p "$tmp/a/$(dirname "$file")" "$tmp/b/$(dirname "$file")"
cp "/repo/$file" "$tmp/a/$file"; cp "/repo/$file" "$tmp/b/$file"
sed -i "$expr" "$tmp/b/$file"
if cmp -s "$tmp/a/$file" "$tmp/b/$file"; then echo "mutant $id: sed expression changed nothing"; rm -rf "$tmp"; exit 1; fi
(cd "$tmp" && diff -u "a/$file" "b/$file" > "/verif/selftest/mutants/$id.patch" || true)
echo "{\"id\":\"$id\",\"property\":\"$prop\",\"file\":\"$file\",\"expect\":\"$expect\"}" > "/verif/selftest/mutants/$id.json"
rm -rf "$tmp"
echo "mutant $id written"
