#!/bin/bash
# Builds the verifier (gvc) from /verif/engine, offline.
set -e
cd "$(dirname "$0")/engine"
export GOFLAGS=-mod=mod GOPROXY=off GOSUMDB=off GOTOOLCHAIN=local
mkdir -p ../bin
go build -o ../bin/gvc .
echo "gvc built: $(cd .. && pwd)/bin/gvc"
