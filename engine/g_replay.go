package main

// Replay of solver counterexamples on the real code: the model is turned into concrete
// arguments, an in-package test is injected with `go test -overlay` (nothing is written into
// the repository), the real function is called and the failed clause is evaluated in Go.

import (
	"bytes"
	"encoding/json"
	"fmt"
	"go/types"
	"os"
	"os/exec"
	"path/filepath"
	"regexp"
	"sort"
	"strconv"
	"strings"

	"golang.org/x/tools/go/ssa"
)

type replayParam struct {
	Name  string
	Type  types.Type
	Terms []string
}

func replayable(t types.Type) bool {
	switch u := t.Underlying().(type) {
	case *types.Basic:
		return isInt(t) || isBool(t) || isString(t)
	case *types.Slice:
		return isInt(u.Elem())
	}
	return false
}

var valLineRe = regexp.MustCompile(`\(\s*([^\s()]+|\([^()]*(?:\([^()]*\)[^()]*)*\))\s+(#x[0-9a-fA-F]+|#b[01]+|true|false|-?[0-9]+|\(-\s*[0-9]+\))\s*\)`)

func getValues(query string, terms []string, extra []string) (map[string]string, error) {
	var b strings.Builder
	b.WriteString("(set-option :produce-models true)\n")
	b.WriteString(query)
	for _, x := range extra {
		b.WriteString("(assert " + x + ")\n")
	}
	b.WriteString("(check-sat)\n")
	// one get-value per term keeps parsing simple
	for _, t := range terms {
		b.WriteString("(get-value (" + t + "))\n")
	}
	file := filepath.Join(scratchDir, fmt.Sprintf("replay-%d.smt2", os.Getpid()))
	os.WriteFile(file, []byte(b.String()), 0o644)
	defer os.Remove(file)
	out, _ := exec.Command("z3-new", "-T:30", file).CombinedOutput()
	lines := strings.Split(string(out), "\n")
	if len(lines) == 0 || strings.TrimSpace(lines[0]) != "sat" {
		return nil, fmt.Errorf("solver did not confirm the model: %s", trunc(string(out), 300))
	}
	vals := map[string]string{}
	k := 0
	for _, l := range lines[1:] {
		l = strings.TrimSpace(l)
		if l == "" {
			continue
		}
		if k >= len(terms) {
			break
		}
		// ((term value))
		i := strings.LastIndex(l, " ")
		m := valLineRe.FindStringSubmatch(l)
		_ = i
		if m == nil {
			// fall back: take the text after the term
			idx := strings.Index(l, terms[k])
			if idx < 0 {
				k++
				continue
			}
			v := strings.TrimSpace(l[idx+len(terms[k]):])
			v = strings.TrimSuffix(strings.TrimSuffix(v, ")"), ")")
			vals[terms[k]] = strings.TrimSpace(v)
		} else {
			vals[terms[k]] = m[2]
		}
		k++
	}
	return vals, nil
}

func parseBV(v string) (uint64, bool) {
	v = strings.TrimSpace(v)
	switch {
	case strings.HasPrefix(v, "#x"):
		x, err := strconv.ParseUint(v[2:], 16, 64)
		return x, err == nil
	case strings.HasPrefix(v, "#b"):
		x, err := strconv.ParseUint(v[2:], 2, 64)
		return x, err == nil
	}
	return 0, false
}

func goIntLit(v uint64, t types.Type) string {
	w := intWidth(t)
	tn := types.TypeString(t, func(p *types.Package) string { return "" })
	tn = strings.TrimPrefix(tn, ".")
	if isUnsigned(t) {
		return fmt.Sprintf("%s(0x%x)", tn, v&mask(w))
	}
	// signed
	var sv int64
	switch w {
	case 8:
		sv = int64(int8(v))
	case 16:
		sv = int64(int16(v))
	case 32:
		sv = int64(int32(v))
	default:
		sv = int64(v)
	}
	return fmt.Sprintf("%s(%d)", tn, sv)
}

func (e *Engine) replay(r *FnResult, o *Obligation, outDir string) map[string]interface{} {
	rep := map[string]interface{}{}
	fn := e.fnByKey[r.Key]
	if fn == nil || fn.Signature.Recv() != nil {
		rep["outcome"] = "not-attempted"
		rep["reason"] = "replay builds only scalar, string and integer-slice arguments; this function has a receiver or heap-structured inputs"
		return rep
	}
	for _, p := range r.Params {
		if !replayable(p.Type) {
			rep["outcome"] = "not-attempted"
			rep["reason"] = fmt.Sprintf("parameter %s of type %s cannot be built from a model", p.Name, p.Type)
			return rep
		}
	}
	// 1. scalar leaves
	var terms []string
	for _, p := range r.Params {
		terms = append(terms, p.Terms...)
	}
	// prefer small models: bound slice capacities, relaxing the bound if that is not satisfiable
	var vals map[string]string
	var err error
	for _, bound := range []uint64{16, 256, 1 << 16, 0} {
		var small []string
		if bound > 0 {
			for _, p := range r.Params {
				if _, ok := p.Type.Underlying().(*types.Slice); ok {
					small = append(small, app("bvule", p.Terms[3], bvlit(bound, 64)), app("bvule", p.Terms[1], bvlit(bound, 64)))
				} else if isString(p.Type) {
					small = append(small, app("bvule", p.Terms[2], bvlit(bound, 64)), app("bvule", p.Terms[1], bvlit(bound, 64)))
				}
			}
		}
		vals, err = getValues(o.Query, terms, small)
		if err == nil {
			break
		}
	}
	if err != nil {
		rep["outcome"] = "not-attempted"
		rep["reason"] = err.Error()
		return rep
	}
	var fix []string
	for _, t := range terms {
		if v, ok := vals[t]; ok {
			fix = append(fix, eq(t, v))
		}
	}
	var decls []string
	var args []string
	inputs := map[string]string{}
	for _, p := range r.Params {
		name := p.Name
		if name == "" || name == "_" {
			name = fmt.Sprintf("arg%d", len(args))
		}
		args = append(args, name)
		switch u := p.Type.Underlying().(type) {
		case *types.Basic:
			if isString(p.Type) {
				n, _ := parseBV(vals[p.Terms[2]])
				bs, err := e.modelBytes(r, o, fix, p.Terms[0], p.Terms[1], n, types.Typ[types.Uint8])
				if err != nil {
					rep["outcome"], rep["reason"] = "not-attempted", err.Error()
					return rep
				}
				decls = append(decls, fmt.Sprintf("\t%s := string([]byte{%s})", name, joinU(bs)))
				inputs[name] = fmt.Sprintf("string of %d bytes: %s", n, joinU(bs))
			} else if isBool(p.Type) {
				decls = append(decls, fmt.Sprintf("\t%s := %s", name, vals[p.Terms[0]]))
				inputs[name] = vals[p.Terms[0]]
			} else {
				v, _ := parseBV(vals[p.Terms[0]])
				decls = append(decls, fmt.Sprintf("\t%s := %s", name, goIntLit(v, p.Type)))
				inputs[name] = goIntLit(v, p.Type)
			}
		case *types.Slice:
			refv := vals[p.Terms[0]]
			n, _ := parseBV(vals[p.Terms[2]])
			c, _ := parseBV(vals[p.Terms[3]])
			et := types.TypeString(u.Elem(), func(p *types.Package) string { return "" })
			if refv == "0" {
				decls = append(decls, fmt.Sprintf("\tvar %s []%s", name, et))
				inputs[name] = "nil"
				continue
			}
			if c > 1<<22 {
				rep["outcome"], rep["reason"] = "not-attempted", fmt.Sprintf("model asks for a slice of capacity %d", c)
				return rep
			}
			bs, err := e.modelBytes(r, o, fix, p.Terms[0], p.Terms[1], n, u.Elem())
			if err != nil {
				rep["outcome"], rep["reason"] = "not-attempted", err.Error()
				return rep
			}
			decls = append(decls, fmt.Sprintf("\t%s := make([]%s, %d, %d)\n\tcopy(%s, []%s{%s})", name, et, n, c, name, et, joinU(bs)))
			inputs[name] = fmt.Sprintf("len %d cap %d: [%s]", n, c, joinU(bs))
		}
	}
	rep["inputs"] = inputs
	// 2. test text
	pkg := fn.Pkg.Pkg
	g := &goGen{eng: e, pkg: pkg, specs: map[string]bool{}, olds: map[string]string{}}
	sig := fn.Signature
	var resNames []string
	for i := 0; i < sig.Results().Len(); i++ {
		resNames = append(resNames, fmt.Sprintf("r%d", i))
		g.vars = append(g.vars, fmt.Sprintf("result%d", i))
		if n := sig.Results().At(i).Name(); n != "" && n != "_" {
			g.alias(n, fmt.Sprintf("r%d", i))
		}
		g.alias(fmt.Sprintf("result%d", i), fmt.Sprintf("r%d", i))
	}
	if sig.Results().Len() == 1 {
		g.alias("result", "r0")
	}
	for i, p := range r.Params {
		if p.Name != args[i] {
			g.alias(p.Name, args[i])
		}
	}
	clauseGo, clauseErr := "", error(nil)
	if o.Kind == "post" && o.Clause != nil {
		clauseGo, clauseErr = g.expr(o.Clause)
	}
	var t strings.Builder
	t.WriteString("package " + pkg.Name() + "\n\nimport (\n\t\"bytes\"\n\t\"fmt\"\n\t\"testing\"\n)\n\nvar _ = bytes.Equal\n\n")
	t.WriteString(g.helpers.String())
	t.WriteString("func gvcSameSlice(a, b []byte) bool {\n\tif len(a) != len(b) {\n\t\treturn false\n\t}\n\tif cap(a) == 0 || cap(b) == 0 {\n\t\treturn (a == nil) == (b == nil)\n\t}\n\treturn &a[:1][0] == &b[:1][0]\n}\n\n")
	t.WriteString("func gvcIte[T any](c bool, a, b T) T {\n\tif c {\n\t\treturn a\n\t}\n\treturn b\n}\n\n")
	t.WriteString("func TestGvcReplay(t *testing.T) {\n")
	t.WriteString(strings.Join(decls, "\n") + "\n")
	var oldNames []string
	for n := range g.olds {
		oldNames = append(oldNames, n)
	}
	sort.Strings(oldNames)
	for _, n := range oldNames {
		t.WriteString("\t" + g.olds[n] + "\n")
	}
	t.WriteString("\tdefer func() {\n\t\tif r := recover(); r != nil {\n\t\t\tfmt.Printf(\"GVC-REPLAY panic: %v\\n\", r)\n\t\t}\n\t}()\n")
	call := fn.Name() + "(" + strings.Join(args, ", ") + ")"
	if len(resNames) > 0 {
		t.WriteString("\t" + strings.Join(resNames, ", ") + " := " + call + "\n")
		for _, rn := range resNames {
			t.WriteString(fmt.Sprintf("\tfmt.Printf(\"GVC-REPLAY %s=%%#v\\n\", %s)\n", rn, rn))
		}
	} else {
		t.WriteString("\t" + call + "\n")
	}
	t.WriteString("\tfmt.Println(\"GVC-REPLAY returned\")\n")
	if clauseGo != "" && clauseErr == nil {
		t.WriteString("\tfmt.Printf(\"GVC-REPLAY clause=%v\\n\", " + clauseGo + ")\n")
	}
	t.WriteString("}\n")
	rep["test"] = t.String()
	if clauseErr != nil {
		rep["clause_translation"] = clauseErr.Error()
	}
	// 3. run
	dir := strings.TrimPrefix(filepath.Dir(r.File), e.repo)
	work := filepath.Join(scratchDir, "replay")
	os.MkdirAll(work, 0o755)
	testFile := filepath.Join(work, "zz_gvc_replay_test.go")
	os.WriteFile(testFile, []byte(t.String()), 0o644)
	ov := map[string]map[string]string{"Replace": {filepath.Join(filepath.Dir(r.File), "zz_gvc_replay_test.go"): testFile}}
	ovb, _ := json.Marshal(ov)
	ovFile := filepath.Join(work, "ov.json")
	os.WriteFile(ovFile, ovb, 0o644)
	cmd := exec.Command("bash", "-c", fmt.Sprintf("ulimit -v 8000000; cd %s && go test -tags verif -overlay %s -vet=off -timeout 60s -count=1 -v -run '^TestGvcReplay$' .%s 2>&1 | head -c 6000", e.repo, ovFile, dir))
	cmd.Env = append(os.Environ(), "GOFLAGS=-mod=mod", "GOPROXY=off", "GOSUMDB=off", "GOTOOLCHAIN=local")
	var out bytes.Buffer
	cmd.Stdout = &out
	cmd.Stderr = &out
	cmd.Run()
	os.RemoveAll(work)
	so := out.String()
	rep["go_test_output"] = so
	panicked := strings.Contains(so, "GVC-REPLAY panic:")
	clauseFalse := strings.Contains(so, "GVC-REPLAY clause=false")
	switch {
	case o.Kind == "post" && clauseFalse:
		rep["outcome"] = "reproduced"
		rep["explanation"] = "the real function was called with the solver's inputs and the postcondition evaluated to false"
	case o.Kind == "post" && panicked:
		rep["outcome"] = "reproduced"
		rep["explanation"] = "the real function panicked on the solver's inputs"
	case o.Kind != "post" && o.Kind != "pre-of" && o.Kind != "frame" && panicked:
		rep["outcome"] = "reproduced"
		rep["explanation"] = "the real function panicked on the solver's inputs"
	default:
		rep["outcome"] = "not-reproduced"
	}
	return rep
}

func joinU(bs []uint64) string {
	var ss []string
	for _, b := range bs {
		ss = append(ss, fmt.Sprintf("0x%x", b))
	}
	return strings.Join(ss, ", ")
}

// modelBytes asks the solver for the content of a slice in the pre-state.
func (e *Engine) modelBytes(r *FnResult, o *Obligation, fix []string, ref, off string, n uint64, et types.Type) ([]uint64, error) {
	if n == 0 {
		return nil, nil
	}
	if n > 4096 {
		return nil, fmt.Errorf("model slice too long to replay (%d elements)", n)
	}
	ls := leavesOf(et)
	key := "elem|" + typeName(et) + ls[0].Suffix
	h, ok := r.PreHeap[key]
	if !ok {
		// content never read: anything works
		return make([]uint64, n), nil
	}
	var terms []string
	for i := uint64(0); i < n; i++ {
		terms = append(terms, fmt.Sprintf("(select (select %s %s) (bvadd %s %s))", h, ref, off, bvlit(i, 64)))
	}
	q := o.Query
	if !strings.Contains(q, "declare-const "+h+" ") {
		return make([]uint64, n), nil
	}
	vals, err := getValues(q, terms, fix)
	if err != nil {
		return nil, err
	}
	out := make([]uint64, n)
	for i, t := range terms {
		v, _ := parseBV(vals[t])
		out[i] = v
	}
	return out, nil
}

// ---------------------------------------------------------------------------------------
// contract expression -> Go

type goGen struct {
	eng     *Engine
	pkg     *types.Package
	helpers strings.Builder
	specs   map[string]bool
	aliases map[string]string
	olds    map[string]string
	vars    []string
}

func (g *goGen) alias(from, to string) {
	if g.aliases == nil {
		g.aliases = map[string]string{}
	}
	g.aliases[from] = to
}

var goBuiltinSpec = map[string]string{"lexcmp": "bytes.Compare"}

func (g *goGen) expr(e *Expr) (s string, err error) {
	defer func() {
		if r := recover(); r != nil {
			if m, ok := r.(goGenErr); ok {
				err = fmt.Errorf("%s", string(m))
				return
			}
			panic(r)
		}
	}()
	return g.ex(e), nil
}

type goGenErr string

func (g *goGen) ex(e *Expr) string {
	switch e.K {
	case "num":
		return e.Name
	case "str":
		return strconv.Quote(e.Name)
	case "id":
		if a, ok := g.aliases[e.Name]; ok {
			return a
		}
		return e.Name
	case "un":
		return "(" + e.Op + g.ex(e.X[0]) + ")"
	case "bin":
		a, b := e.X[0], e.X[1]
		switch e.Op {
		case "==>":
			return "(!(" + g.ex(a) + ") || (" + g.ex(b) + "))"
		case "<==>":
			return "((" + g.ex(a) + ") == (" + g.ex(b) + "))"
		case "in":
			return "func() bool { _, ok := " + g.ex(b) + "[" + g.ex(a) + "]; return ok }()"
		case "==", "!=":
			if isBytesCall(a) && isBytesCall(b) {
				s := "bytes.Equal(" + g.ex(a.X[1]) + ", " + g.ex(b.X[1]) + ")"
				if e.Op == "!=" {
					s = "!" + s
				}
				return s
			}
			if (a.K == "slice" || b.K == "slice") && !(a.K == "id" && a.Name == "nil") && !(b.K == "id" && b.Name == "nil") {
				// slice identity: same base pointer, length
				return fmt.Sprintf("gvcSameSlice(%s, %s) %s true", g.ex(a), g.ex(b), e.Op)
			}
		}
		return "(" + g.ex(a) + " " + e.Op + " " + g.ex(b) + ")"
	case "tern":
		return "gvcIte(" + g.ex(e.X[0]) + ", " + g.ex(e.X[1]) + ", " + g.ex(e.X[2]) + ")"
	case "index":
		return g.ex(e.X[0]) + "[" + g.ex(e.X[1]) + "]"
	case "slice":
		s := g.ex(e.X[0]) + "["
		if e.X[1] != nil {
			s += g.ex(e.X[1])
		}
		s += ":"
		if e.X[2] != nil {
			s += g.ex(e.X[2])
		}
		return s + "]"
	case "sel":
		return g.ex(e.X[0]) + "." + e.Name
	case "typ":
		return e.Type.String()
	case "call":
		if e.X[0].K == "id" {
			switch e.X[0].Name {
			case "old":
				if e.X[1].K == "id" {
					n := e.X[1].Name
					if a, ok := g.aliases[n]; ok {
						n = a
					}
					g.olds[n] = fmt.Sprintf("old_%s := append(%s[:0:0], %s...)", n, n, n)
					return "old_" + n
				}
				panic(goGenErr("old() of a compound expression is not executable"))
			case "fresh", "held":
				return "true"
			case "bytes":
				return g.ex(e.X[1])
			case "isnil":
				return "(" + g.ex(e.X[1]) + " == nil)"
			}
			if m, ok := goBuiltinSpec[e.X[0].Name]; ok {
				var as []string
				for _, a := range e.X[1:] {
					as = append(as, g.ex(a))
				}
				return m + "(" + strings.Join(as, ", ") + ")"
			}
			if sf := g.eng.cs.Specs[e.X[0].Name]; sf != nil {
				g.emitSpec(sf)
				var as []string
				for _, a := range e.X[1:] {
					as = append(as, g.ex(a))
				}
				return "gvcSpec_" + sf.Name + "(" + strings.Join(as, ", ") + ")"
			}
		}
		var as []string
		for _, a := range e.X[1:] {
			as = append(as, g.ex(a))
		}
		return g.ex(e.X[0]) + "(" + strings.Join(as, ", ") + ")"
	case "quant":
		return g.quant(e)
	}
	panic(goGenErr("expression not executable: " + e.String()))
}

func isBytesCall(e *Expr) bool {
	return e.K == "call" && e.X[0].K == "id" && e.X[0].Name == "bytes"
}

func (g *goGen) emitSpec(sf *SpecFn) {
	if g.specs[sf.Name] {
		return
	}
	g.specs[sf.Name] = true
	if sf.Body == nil {
		panic(goGenErr("uninterpreted spec function " + sf.Name + " is not executable"))
	}
	var ps []string
	for _, p := range sf.Params {
		ps = append(ps, p.Name+" "+p.Type.String())
	}
	sub := &goGen{eng: g.eng, pkg: g.pkg, specs: g.specs, olds: g.olds}
	body := sub.ex(sf.Body)
	g.helpers.WriteString(sub.helpers.String())
	g.helpers.WriteString(fmt.Sprintf("func gvcSpec_%s(%s) %s { return %s }\n\n", sf.Name, strings.Join(ps, ", "), sf.Ret.String(), body))
}

// quant: forall/exists over integer variables with range guards lo <= x && x < hi.
func (g *goGen) quant(e *Expr) string {
	body := e.X[0]
	var guard *Expr
	if e.Op == "forall" {
		if body.K != "bin" || body.Op != "==>" {
			panic(goGenErr("forall without a range guard is not executable"))
		}
		guard, body = body.X[0], body.X[1]
	} else {
		if body.K != "bin" || body.Op != "&&" {
			panic(goGenErr("exists without a range guard is not executable"))
		}
		guard = body
	}
	var conj []*Expr
	var flat func(x *Expr)
	flat = func(x *Expr) {
		if x.K == "bin" && x.Op == "&&" {
			flat(x.X[0])
			flat(x.X[1])
		} else {
			conj = append(conj, x)
		}
	}
	flat(guard)
	var sb strings.Builder
	sb.WriteString("func() bool {\n")
	closers := ""
	for _, v := range e.Vars {
		lo, hi := "", ""
		for _, c := range conj {
			if c.K != "bin" {
				continue
			}
			l, r := c.X[0], c.X[1]
			switch {
			case c.Op == "<=" && r.K == "id" && r.Name == v.Name:
				lo = g.ex(l)
			case c.Op == "<" && l.K == "id" && l.Name == v.Name:
				hi = g.ex(r)
			case c.Op == "<=" && l.K == "id" && l.Name == v.Name:
				hi = "(" + g.ex(r) + ")+1"
			}
		}
		if hi == "" {
			panic(goGenErr("no upper bound for quantified variable " + v.Name))
		}
		if lo == "" {
			if strings.HasPrefix(v.Type.String(), "uint") {
				lo = "0"
			} else {
				panic(goGenErr("no lower bound for quantified variable " + v.Name))
			}
		}
		sb.WriteString(fmt.Sprintf("for %s := %s(%s); %s < %s(%s); %s++ {\n", v.Name, v.Type.String(), lo, v.Name, v.Type.String(), hi, v.Name))
		closers += "}\n"
	}
	if e.Op == "forall" {
		sb.WriteString("if (" + g.ex(guard) + ") && !(" + g.ex(body) + ") { return false }\n" + closers + "return true\n}()")
	} else {
		sb.WriteString("if " + g.ex(body) + " { return true }\n" + closers + "return false\n}()")
	}
	return sb.String()
}

var _ = ssa.NaiveForm
