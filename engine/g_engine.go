package main

// Engine: loading /repo, contract lookup, global SMT declarations, top-level verification of
// one function against its contract.

import (
	"fmt"
	"go/token"
	"go/types"
	"os"
	"path/filepath"
	"sort"
	"strings"
	"sync"

	"golang.org/x/tools/go/packages"
	"golang.org/x/tools/go/ssa"
	"golang.org/x/tools/go/ssa/ssautil"
)

const modPath = "github.com/dgraph-io/badger/v4"

type Engine struct {
	repo      string
	verifDir  string
	fset      *token.FileSet
	prog      *ssa.Program
	pkgs      []*packages.Package
	spkgs     map[string]*ssa.Package
	pkgByName map[string]*types.Package
	pkgByPath map[string]*types.Package
	cs        *ContractSet
	fnByKey   map[string]*ssa.Function

	mu        sync.Mutex
	funDecls  map[string]string
	typeTags  map[string]int
	globalIDs map[string]int
	strIDs    map[string]int
	constGlobals map[string]string // "pkg.Name" -> string content
	assumptions map[string]bool
	smallCache     map[*ssa.Function]bool
	recordedLocals map[string][]string
	aliasCache     map[*ssa.Function]map[string]string
	implCache map[string][]*ssa.Function
}

var loadPatterns = []string{".", "./y", "./table", "./skl", "./trie"}

func loadEngine(repo, verifDir string) (*Engine, error) {
	e := &Engine{repo: repo, verifDir: verifDir, spkgs: map[string]*ssa.Package{}, pkgByName: map[string]*types.Package{},
		pkgByPath: map[string]*types.Package{}, fnByKey: map[string]*ssa.Function{}, funDecls: map[string]string{},
		typeTags: map[string]int{}, globalIDs: map[string]int{}, strIDs: map[string]int{}, constGlobals: map[string]string{},
		assumptions: map[string]bool{}}
	cfg := &packages.Config{Mode: packages.LoadAllSyntax, Dir: repo, BuildFlags: []string{"-tags=verif"},
		Env: append(os.Environ(), "GOFLAGS=-mod=mod", "GOPROXY=off", "GOSUMDB=off", "GOTOOLCHAIN=local")}
	pkgs, err := packages.Load(cfg, loadPatterns...)
	if err != nil {
		return nil, err
	}
	for _, p := range pkgs {
		for _, er := range p.Errors {
			return nil, fmt.Errorf("package %s: %v", p.PkgPath, er)
		}
	}
	e.pkgs = pkgs
	e.fset = pkgs[0].Fset
	prog, spkgs := ssautil.AllPackages(pkgs, ssa.GlobalDebug)
	prog.Build()
	e.prog = prog
	theProg = prog
	for i, sp := range spkgs {
		if sp != nil {
			e.spkgs[pkgs[i].PkgPath] = sp
		}
	}
	packages.Visit(pkgs, nil, func(p *packages.Package) {
		if p.Types != nil {
			e.pkgByPath[p.PkgPath] = p.Types
			if _, dup := e.pkgByName[p.Types.Name()]; !dup || strings.HasPrefix(p.PkgPath, modPath) {
				e.pkgByName[p.Types.Name()] = p.Types
			}
		}
	})
	// contracts
	e.cs = newContractSet()
	shared, _ := filepath.Glob(filepath.Join(verifDir, "contracts", "*.gvc"))
	sort.Strings(shared)
	for _, f := range shared {
		if err := e.cs.readContractFile(f, ""); err != nil {
			return nil, err
		}
	}
	for _, p := range pkgs {
		dir := repo
		if p.PkgPath != modPath {
			dir = filepath.Join(repo, strings.TrimPrefix(p.PkgPath, modPath+"/"))
		}
		for _, name := range []string{"zz_verif_contracts.go", "zz_verif_lemmas.go"} {
			f := filepath.Join(dir, name)
			if _, err := os.Stat(f); err == nil {
				if err := e.cs.readContractFile(f, p.PkgPath); err != nil {
					return nil, err
				}
			}
		}
	}
	for k, v := range e.cs.ConstGlobals {
		e.constGlobals[k] = v
	}
	// index functions
	for fn := range ssautil.AllFunctions(prog) {
		if fn.Pkg == nil && fn.Origin() == nil {
			continue
		}
		e.fnByKey[e.keyOf(fn)] = fn
	}
	return e, nil
}

// keyOf: the contract key of a function.
func (e *Engine) keyOf(fn *ssa.Function) string {
	if fn.Pkg != nil && strings.HasPrefix(fn.Pkg.Pkg.Path(), modPath) {
		return fn.Pkg.Pkg.Path() + "::" + relName(fn)
	}
	return "::" + fn.String()
}

func relName(fn *ssa.Function) string {
	if fn.Parent() != nil {
		// a closure is keyed by the local variable it is assigned to, when there is one
		// (stable when other closures are added or removed); otherwise by its ordinal
		for _, b := range fn.Parent().Blocks {
			for _, ins := range b.Instrs {
				if dr, ok := ins.(*ssa.DebugRef); ok && !dr.IsAddr {
					if mc, ok := dr.X.(*ssa.MakeClosure); ok && mc.Fn == fn {
						if o := dr.Object(); o != nil {
							return relName(fn.Parent()) + "." + o.Name()
						}
					}
					if f2, ok := dr.X.(*ssa.Function); ok && f2 == fn {
						if o := dr.Object(); o != nil {
							return relName(fn.Parent()) + "." + o.Name()
						}
					}
				}
			}
		}
		return relName(fn.Parent()) + "." + strings.TrimPrefix(fn.Name(), fn.Parent().Name())
	}
	return fn.RelString(fn.Pkg.Pkg)
}

// fullKey maps a contract key as passed around at call sites to the key of fnByKey.
func (e *Engine) fullKey(key string) string {
	if _, ok := e.fnByKey[key]; ok {
		return key
	}
	if _, ok := e.fnByKey["::"+key]; ok {
		return "::" + key
	}
	return key
}

func (e *Engine) contractFor(fn *ssa.Function) (string, *Contract) {
	k := e.keyOf(fn)
	if ct := e.cs.Funcs[k]; ct != nil {
		return k, ct
	}
	if fn.Origin() != nil {
		k = "::" + fn.Origin().String()
		if ct := e.cs.Funcs[k]; ct != nil {
			return k, ct
		}
	}
	return k, nil
}

func (e *Engine) autoInline(fn *ssa.Function) bool {
	if fn.Parent() != nil && len(fn.Blocks) > 0 {
		return true
	}
	return e.smallHelper(fn)
}

// smallHelper: a function of the module without contract that is small, loop free, has no
// defers and is not recursive (what "extract a few lines into a helper" produces). Executing
// its body in place is more precise than an unconstrained result with an inferred frame, and it
// keeps a proof alive when code under contract is moved into such a helper.
func (e *Engine) smallHelper(fn *ssa.Function) bool {
	if fn == nil || len(fn.Blocks) == 0 || len(fn.Blocks) > 12 || isForeign(fn) || fn.Recover != nil {
		return false
	}
	e.mu.Lock()
	v, cached := e.smallCache[fn]
	e.mu.Unlock()
	if cached {
		return v
	}
	ok := true
	n := 0
	for _, b := range fn.Blocks {
		for _, s := range b.Succs {
			if s.Index <= b.Index && s.Dominates(b) {
				ok = false // a loop
			}
		}
		for _, ins := range b.Instrs {
			n++
			switch x := ins.(type) {
			case *ssa.Defer, *ssa.Go, *ssa.Select, *ssa.Send, *ssa.Panic:
				ok = false
			case ssa.CallInstruction:
				if c, isFn := x.Common().Value.(*ssa.Function); isFn && c == fn {
					ok = false
				}
			}
		}
	}
	if n > 60 {
		ok = false
	}
	e.mu.Lock()
	if e.smallCache == nil {
		e.smallCache = map[*ssa.Function]bool{}
	}
	e.smallCache[fn] = ok
	e.mu.Unlock()
	return ok
}

func (e *Engine) fnDisplay(fn *ssa.Function) string {
	return shortKey(e.keyOf(fn))
}

func (e *Engine) typesPkg(path string) *types.Package {
	if path == "" {
		return nil
	}
	return e.pkgByPath[path]
}

func (e *Engine) declareFun(sym string, argSorts []string, ret string) {
	e.mu.Lock()
	defer e.mu.Unlock()
	d := fmt.Sprintf("(declare-fun %s (%s) %s)", sym, strings.Join(argSorts, " "), ret)
	if old, ok := e.funDecls[sym]; ok && old != d {
		panic(specErr(fmt.Sprintf("spec function %s used with different signatures: %s vs %s", sym, old, d)))
	}
	e.funDecls[sym] = d
}

func (e *Engine) header() string {
	e.mu.Lock()
	defer e.mu.Unlock()
	var b strings.Builder
	b.WriteString("(declare-sort F64 0)\n(declare-const f64zero F64)\n")
	var ks []string
	for k := range e.funDecls {
		ks = append(ks, k)
	}
	sort.Strings(ks)
	for _, k := range ks {
		b.WriteString(e.funDecls[k] + "\n")
	}
	return b.String()
}

func (e *Engine) typeTag(t types.Type) string { return e.typeTagName(typeNameFull(t)) }

func (e *Engine) typeTagName(n string) string {
	e.mu.Lock()
	defer e.mu.Unlock()
	id, ok := e.typeTags[n]
	if !ok {
		id = len(e.typeTags) + 1
		e.typeTags[n] = id
	}
	return fmt.Sprint(id)
}

func (e *Engine) globalID(name string) int {
	e.mu.Lock()
	defer e.mu.Unlock()
	id, ok := e.globalIDs[name]
	if !ok {
		id = len(e.globalIDs) + 1
		e.globalIDs[name] = id
	}
	return id
}

func (e *Engine) globalPtr(o types.Object) PtrV {
	id := e.globalID(o.Pkg().Path() + "." + o.Name())
	return PtrV{Kind: PObj, Ref: intlit(int64(-id)), Root: o.Type()}
}

// isConstGlobal: package-level error variables (never reassigned, pairwise distinct, non-nil)
// and the byte-string globals declared in the contract files.
func (e *Engine) isConstGlobal(o types.Object) bool {
	if types.Identical(o.Type(), types.Universe.Lookup("error").Type()) {
		return true
	}
	_, ok := e.constGlobals[o.Pkg().Path()+"."+o.Name()]
	return ok
}

func (e *Engine) constGlobal(fc *FnCtx, o types.Object) Val {
	name := o.Pkg().Path() + "." + o.Name()
	if types.Identical(o.Type(), types.Universe.Lookup("error").Type()) {
		fc.note("package-level error variables are distinct, non-nil and never reassigned")
		id := e.globalID(name)
		return IfaceV{e.typeTagName("errorVar"), intlit(int64(-1000000 - id))}
	}
	s := e.constGlobals[name]
	sv := e.stringConst(fc, s).(SliceV)
	return SliceV{sv.Ref, sv.Off, sv.Len, sv.Len}
}

func (e *Engine) floatConst(s string) string {
	sym := "f64c_" + fmt.Sprintf("%x", hashStr(s))
	e.mu.Lock()
	e.funDecls[sym] = fmt.Sprintf("(declare-const %s F64)", sym)
	e.mu.Unlock()
	return sym
}

// stringConst: a string literal is an immutable region with known content.
func (e *Engine) stringConst(fc *FnCtx, s string) Val {
	e.mu.Lock()
	id, ok := e.strIDs[s]
	if !ok {
		id = len(e.strIDs) + 1
		e.strIDs[s] = id
	}
	e.mu.Unlock()
	ref := intlit(int64(-2000000 - id))
	n := bvlit(uint64(len(s)), 64)
	if fc.curSt != nil && len(s) > 0 && len(s) <= 64 {
		st := fc.curSt
		et := types.Typ[types.Uint8]
		arr := fc.regionArr(st, SliceV{ref, bvlit(0, 64), n, n}, et)
		if fc.strAssumed == nil {
			fc.strAssumed = map[string]bool{}
		}
		if fc.strAssumed[arr+"|"+st.guard] {
			return SliceV{ref, bvlit(0, 64), n, n}
		}
		var cs []string
		for i := 0; i < len(s); i++ {
			cs = append(cs, eq(app("select", arr, bvlit(uint64(i), 64)), bvlit(uint64(s[i]), 8)))
		}
		fc.note("string literals are immutable regions with their literal content")
		fc.assume(st, and(cs...))
		fc.strAssumed[arr+"|"+st.guard] = true
	}
	return SliceV{ref, bvlit(0, 64), n, n}
}

// ---------------------------------------------------------------------------------------
// axioms and congruence

func (fc *FnCtx) instantiateAxioms(env *SpecEnv, oa *OpaqueApp) {
	if env.depth > 3 {
		return
	}
	for _, ax := range fc.eng.cs.Axioms {
		q := ax.E
		if q.K != "quant" || q.Op != "forall" || len(q.Trig) == 0 {
			continue
		}
		for _, group := range q.Trig {
			if len(group) > 1 {
				continue // multi-pattern triggers are instantiated per query (pairAxioms)
			}
			for pi, pat := range group {
				if pat.K != "call" || pat.X[0].K != "id" || pat.X[0].Name != oa.Fn {
					continue
				}
				bind := map[string]TV{}
				if !matchPattern(pat, oa, bind) {
					continue
				}
				fc.matchRest(env, ax, q, group, pi, 0, bind, oa)
			}
		}
	}
}

func matchPattern(pat *Expr, oa *OpaqueApp, bind map[string]TV) bool {
	if len(pat.X)-1 != len(oa.ArgTV) {
		return false
	}
	for i, a := range pat.X[1:] {
		if a.K != "id" {
			return false
		}
		if prev, ok := bind[a.Name]; ok {
			if !sameTV(prev, oa.ArgTV[i]) {
				return false
			}
			continue
		}
		bind[a.Name] = oa.ArgTV[i]
	}
	return true
}

func sameTV(a, b TV) bool {
	fa, fb := fmt.Sprint(a.V), fmt.Sprint(b.V)
	return fa == fb
}

func (fc *FnCtx) matchRest(env *SpecEnv, ax *Axiom, q *Expr, group []*Expr, skip, k int, bind map[string]TV, oa *OpaqueApp) {
	if k == len(group) {
		// all patterns matched: every bound variable must be bound
		aenv := &SpecEnv{fc: fc, st: env.st, old: env.old, pkg: fc.eng.typesPkg(ax.Pkg), vars: map[string]TV{}, depth: env.depth + 2}
		if aenv.pkg == nil {
			aenv.pkg = env.pkg
		}
		for _, b := range q.Vars {
			tv, ok := bind[b.Name]
			if !ok {
				return
			}
			aenv.vars[b.Name] = tv
		}
		defer func() {
			if r := recover(); r != nil {
				if se, ok := r.(specErr); ok {
					panic(specErr(fmt.Sprintf("axiom %s: %s", ax.Name, string(se))))
				}
				panic(r)
			}
		}()
		inst := aenv.evalBool(q.X[0])
		fc.smt.addExtra(oa.Name, inst)
		return
	}
	if k == skip {
		fc.matchRest(env, ax, q, group, skip, k+1, bind, oa)
		return
	}
	pat := group[k]
	if pat.K != "call" || pat.X[0].K != "id" {
		return
	}
	apps := append([]*OpaqueApp(nil), fc.smt.apps[pat.X[0].Name]...)
	for _, other := range apps {
		b2 := map[string]TV{}
		for n, v := range bind {
			b2[n] = v
		}
		if matchPattern(pat, other, b2) {
			fc.matchRest(env, ax, q, group, skip, k+1, b2, oa)
		}
	}
}

// pairAxioms instantiates axioms with multi-pattern triggers on the applications that occur in
// the query text.
func (fc *FnCtx) pairAxioms(text string) string {
	present := map[string]bool{}
	for _, id := range identRe.FindAllString(text, -1) {
		present[id] = true
	}
	if fc.pairCache == nil {
		fc.pairCache = map[string]string{}
	}
	var out strings.Builder
	for _, ax := range fc.eng.cs.Axioms {
		q := ax.E
		if q.K != "quant" || q.Op != "forall" {
			continue
		}
		for _, group := range q.Trig {
			if len(group) < 2 {
				continue
			}
			var rec func(k int, bind map[string]TV, names []string)
			rec = func(k int, bind map[string]TV, names []string) {
				if k == len(group) {
					key := ax.Name + "|" + strings.Join(names, ",")
					inst, ok := fc.pairCache[key]
					if !ok {
						aenv := &SpecEnv{fc: fc, st: fc.pre, old: fc.pre, pkg: fc.eng.typesPkg(ax.Pkg), vars: map[string]TV{}, depth: 5}
						if aenv.pkg == nil && fc.fn != nil {
							aenv.pkg = fc.fn.Pkg.Pkg
						}
						complete := true
						for _, b := range q.Vars {
							tv, ok := bind[b.Name]
							if !ok {
								complete = false
							}
							aenv.vars[b.Name] = tv
						}
						if complete {
							func() {
								defer func() {
									if r := recover(); r != nil {
										if _, ok := r.(specErr); ok {
											inst = ""
											return
										}
										panic(r)
									}
								}()
								inst = aenv.evalBool(q.X[0])
							}()
						}
						fc.pairCache[key] = inst
					}
					if inst != "" && inst != "true" {
						out.WriteString("(assert " + inst + ")\n")
					}
					return
				}
				pat := group[k]
				if pat.K != "call" || pat.X[0].K != "id" {
					return
				}
				for _, oa := range fc.smt.apps[pat.X[0].Name] {
					if !present[oa.Name] {
						continue
					}
					b2 := map[string]TV{}
					for n, v := range bind {
						b2[n] = v
					}
					if matchPattern(pat, oa, b2) {
						rec(k+1, b2, append(append([]string(nil), names...), oa.Name))
					}
				}
			}
			rec(0, map[string]TV{}, nil)
		}
	}
	return out.String()
}

// congruence: equal content => equal value, for pairs of applications present in the text.
func (fc *FnCtx) congruence(text string) string {
	present := map[string]bool{}
	for _, id := range identRe.FindAllString(text, -1) {
		present[id] = true
	}
	var b strings.Builder
	var fns []string
	for fn := range fc.smt.apps {
		fns = append(fns, fn)
	}
	sort.Strings(fns)
	for _, fn := range fns {
		var apps []*OpaqueApp
		for _, a := range fc.smt.apps[fn] {
			if present[a.Name] {
				apps = append(apps, a)
			}
		}
		for i := 0; i < len(apps); i++ {
			for j := i + 1; j < len(apps); j++ {
				c := congruenceInstance(fc, apps[i], apps[j])
				if c != "" {
					b.WriteString("(assert " + c + ")\n")
				}
			}
		}
	}
	return b.String()
}

func congruenceInstance(fc *FnCtx, a, b *OpaqueApp) string {
	var conds []string
	hasContent := false
	for i := range a.ArgTV {
		fa, oka := a.ArgTV[i].V.(FrozenV)
		fb, okb := b.ArgTV[i].V.(FrozenV)
		if oka && okb {
			hasContent = true
			if fa == fb {
				continue
			}
			k := fc.smt.freshName("k")
			conds = append(conds, eq(fa.Len, fb.Len),
				fmt.Sprintf("(forall ((%s (_ BitVec 64))) (=> (and (bvsle #x0000000000000000 %s) (bvslt %s %s)) (= (select %s (bvadd %s %s)) (select %s (bvadd %s %s)))))",
					k, k, k, fa.Len, fa.Arr, fa.Off, k, fb.Arr, fb.Off, k))
			continue
		}
		xa := flatten(a.ArgTV[i].T, a.ArgTV[i].V)
		xb := flatten(b.ArgTV[i].T, b.ArgTV[i].V)
		for k := range xa {
			conds = append(conds, eq(xa[k], xb[k]))
		}
	}
	if !hasContent {
		return "" // ordinary congruence is built into the solver
	}
	return implies(and(conds...), eq(a.Name, b.Name))
}

// ---------------------------------------------------------------------------------------
// top-level verification of one function

type FnResult struct {
	Key     string
	Display string
	File    string
	Obs     []*Obligation
	Notes   []string
	Err     string // engine error: function outside subset / bad contract
	Trusted bool
	Params  []replayParam
	PreHeap map[string]string
}

func (e *Engine) verifyFunction(key string, ct *Contract) (res *FnResult) {
	res = &FnResult{Key: key, Display: shortKey(key)}
	if ct.Trusted {
		res.Trusted = true
		return
	}
	fn := e.fnByKey[key]
	if fn == nil {
		res.Err = fmt.Sprintf("contract %s (%s:%d) does not match any function", shortKey(key), ct.File, ct.Line)
		return
	}
	res.File = e.fset.Position(fn.Pos()).Filename
	if ct.Trusted {
		res.Trusted = true
		return
	}
	fc := &FnCtx{eng: e, fn: fn, ct: ct, smt: newSMTCtx(), vals: map[ssa.Value]Val{}, heap0: map[string]string{},
		keySort: map[string]string{}, counts: map[string]int{}, touched: map[string]bool{}, notes: map[string]bool{},
		callOrd: map[string]int{}, knownNonNil: map[string]bool{}, light: ct.Light}
	defer func() {
		for n := range fc.notes {
			res.Notes = append(res.Notes, n)
		}
		sort.Strings(res.Notes)
		res.Obs = fc.obs
		res.PreHeap = map[string]string{}
		for bk, sym := range fc.heap0 {
			if strings.HasPrefix(bk, "0|") {
				res.PreHeap[bk[2:]] = sym
			}
		}
		if r := recover(); r != nil {
			switch x := r.(type) {
			case unsupported:
				res.Err = "outside subset: " + string(x) + " (at " + fc.posStr(token.NoPos) + ")"
			case specErr:
				res.Err = "contract error: " + string(x)
			default:
				panic(r)
			}
		}
	}()
	st := &State{guard: "true", heap: map[string]string{}}
	st.alloc = fc.smt.declare("alloc0", "Int")
	fc.assume(st, app("<=", "0", st.alloc))
	fc.baseAlloc = map[int]string{0: st.alloc}
	fc.curSt = st
	env := &SpecEnv{fc: fc, st: st, pkg: fn.Pkg.Pkg, vars: map[string]TV{}, alias: e.aliasFor(fn)}
	for i, p := range fn.Params {
		v := fc.fresh(p.Type(), "p_"+p.Name())
		fc.vals[p] = v
		fc.assume(st, fc.typeInv(st, p.Type(), v))
		if i == 0 && fn.Signature.Recv() != nil {
			if pv, ok := v.(PtrV); ok {
				fc.assume(st, not(eq(pv.Ref, "0")))
				fc.knownNonNil[pv.Ref] = true
				fc.note("method receivers are non-nil (checked at every call site under contract)")
			}
		}
		env.vars[p.Name()] = TV{v, p.Type()}
		func() {
			defer func() { recover() }()
			res.Params = append(res.Params, replayParam{p.Name(), p.Type(), flatten(p.Type(), v)})
		}()
	}
	for _, fv := range fn.FreeVars {
		v := fc.fresh(fv.Type(), "fv_"+fv.Name())
		fc.vals[fv] = v
		fc.assume(st, fc.typeInv(st, fv.Type(), v))
		if pv, ok := v.(PtrV); ok {
			fc.assume(st, not(eq(pv.Ref, "0")))
			fc.knownNonNil[pv.Ref] = true
			et := fv.Type().(*types.Pointer).Elem()
			if env.cells == nil {
				env.cells = map[string]cellRef{}
			}
			env.cells[fv.Name()] = cellRef{pv, et}
		}
	}
	fc.pre = st.clone()
	env.old = fc.pre
	for _, c := range ct.Requires {
		fc.assume(st, fc.guarded(func() string { return fc.hyp(env, c.E) }, c))
	}
	for _, c := range ct.Reveals {
		fc.assume(st, fc.guarded(func() string { return env.revealSpec(c.E) }, c))
	}
	for _, c := range ct.Domain {
		fc.assume(st, fc.guarded(func() string { return fc.hyp(env, c.E) }, c))
		fc.note("%s is verified only for inputs with: %s", shortKey(key), c.Src)
	}
	fc.pre.guard = st.guard
	fc.cover(st, "cover:requires", fn.Pos(), "preconditions are satisfiable")
	nret := 0
	fc.execBody(fn, st, ct, "", func(rs *State, results []Val, ret *ssa.Return) {
		nret++
		fc.curSt = rs
		penv := &SpecEnv{fc: fc, st: rs, old: fc.pre, pkg: fn.Pkg.Pkg, vars: map[string]TV{}, alias: e.aliasFor(fn), cells: env.cells}
		for k, v := range env.vars {
			penv.vars[k] = v
		}
		var res Val
		switch len(results) {
		case 0:
		case 1:
			res = results[0]
		default:
			res = TupleV(results)
		}
		bindResults(penv, fn.Signature, res)
		suffix := ""
		if nret > 1 {
			suffix = fmt.Sprintf("@ret%d", nret)
		}
		_ = suffix
		for i, c := range ct.Ensures {
			fc.prove(penv, c.E, rs.clone(), "post:"+clauseName(c, i), "post", ret.Pos(), c.Src)
		}
		if !fc.light {
			fc.frameCheck(rs, env, ret.Pos())
		}
	})
	for _, a := range ct.Asserts {
		if fc.assertHit[a] == 0 {
			res.Err = fmt.Sprintf("contract error: assert %q of %s: anchor %q matches no instruction", a.Name, shortKey(key), a.At)
		}
	}
	for ord := range ct.Loops {
		found := false
		for _, li := range findLoops(fn) {
			if li.ordinal == ord {
				found = true
			}
		}
		if !found {
			res.Err = fmt.Sprintf("contract error: %s has no loop %d", shortKey(key), ord)
		}
	}
	return
}

// frameCheck: every heap location written by the function is either fresh, local, or listed
// in the assigns clause.
func (fc *FnCtx) frameCheck(rs *State, env *SpecEnv, pos token.Pos) {
	var targets []assignTarget
	penv := env.inState(fc.pre)
	for _, a := range fc.ct.Assigns {
		if a.Src == "everything" {
			return
		}
	}
	if fc.ct.AssignsInferred {
		return
	}
	if fc.havocedAll {
		// a callee without frame was havoc'd: nothing can be proved about the frame
		fc.oblige(rs.clone(), "false", "frame:everything", "frame", pos, "a call without contract may modify anything")
		return
	}
	for _, a := range fc.ct.Assigns {
		targets = append(targets, fc.guardedTargets(penv, a)...)
	}
	var keys []string
	for k := range fc.touched {
		keys = append(keys, k)
	}
	sort.Strings(keys)
	for _, k := range keys {
		if strings.HasPrefix(k, "defer|") {
			continue
		}
		srt := fc.keySort[k]
		h0 := fc.heapSym(fc.pre, k, srt)
		h1 := fc.heapSym(rs, k, srt)
		if h0 == h1 {
			continue
		}
		if !strings.HasPrefix(srt, "(Array") {
			// scalar ghost (e.g. the clock): unchanged unless listed
			listed := false
			for _, tg := range targets {
				if tg.scalarGhost && tg.ghost == k {
					listed = true
				}
			}
			if !listed {
				fc.oblige(rs.clone(), eq(h1, h0), "frame:"+k, "frame", pos, "only assigned locations change: "+k)
			}
			continue
		}
		r := fc.smt.declare("fr", "Int")
		notFresh := app("<=", r, fc.pre.alloc)
		isElem := strings.HasPrefix(srt, "(Array Int (Array (_ BitVec 64)")
		var excl []string
		var goal string
		if isElem && strings.HasPrefix(k, "elem|") {
			i := fc.smt.declare("fi", bvsort(64))
			for _, tg := range targets {
				for _, ks := range tg.keys {
					if ks.key != k {
						continue
					}
					if tg.isRng {
						excl = append(excl, and(eq(r, tg.s.Ref), app("bvsle", tg.lo, tg.hi), app("bvult", app("bvsub", i, tg.lo), app("bvsub", tg.hi, tg.lo))))
					} else if tg.ptr.Kind == PElem {
						excl = append(excl, and(eq(r, tg.ptr.Ref), eq(i, tg.ptr.Idx)))
					}
				}
			}
			goal = eq(app("select", app("select", h1, r), i), app("select", app("select", h0, r), i))
		} else {
			for _, tg := range targets {
				for _, ks := range tg.keys {
					if ks.key == k {
						excl = append(excl, eq(r, tg.ptr.Ref))
					}
				}
			}
			goal = eq(app("select", h1, r), app("select", h0, r))
		}
		s2 := rs.clone()
		fc.assume(s2, and(notFresh, not(or(excl...))))
		fc.oblige(s2, goal, "frame:"+k, "frame", pos, "only assigned locations change: "+k)
	}
}
