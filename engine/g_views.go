package main

// Byte views of flat structs (the one unsafe idiom modelled): a struct whose fields are
// fixed-width integers laid out without padding may be read or written through a byte pointer
// of the same size, and the other way round. Layout is that of the gc compiler on a
// little-endian 64-bit machine (an assumption, reported as such).

import (
	"fmt"
	"go/types"
)

const PView = 3 // pointer to a flat struct laid over the bytes of a byte region at (Ref, Idx)

type UnsafeV struct {
	P    PtrV
	Elem types.Type // pointee type before the conversion to unsafe.Pointer
}

type viewInfo struct {
	P PtrV       // the struct behind the byte region
	T types.Type // its type
}

var gcSizes = types.SizesFor("gc", "amd64")

type flatLeaf struct{ off, width int }

// flatLayout returns offset and width (bytes) of every leaf of t in leavesOf order, or false
// when t is not a padding-free struct (or array) of fixed-width integers.
func flatLayout(t types.Type) ([]flatLeaf, bool) {
	var out []flatLeaf
	var walk func(t types.Type, base int64) bool
	walk = func(t types.Type, base int64) bool {
		switch u := t.Underlying().(type) {
		case *types.Basic:
			if u.Info()&types.IsInteger == 0 || u.Kind() == types.Uintptr {
				return false
			}
			out = append(out, flatLeaf{int(base), int(gcSizes.Sizeof(t))})
			return true
		case *types.Struct:
			var fs []*types.Var
			for i := 0; i < u.NumFields(); i++ {
				fs = append(fs, u.Field(i))
			}
			offs := gcSizes.Offsetsof(fs)
			for i, f := range fs {
				if !walk(f.Type(), base+offs[i]) {
					return false
				}
			}
			return true
		}
		return false
	}
	if !walk(t, 0) {
		return nil, false
	}
	// no padding: leaves are contiguous and cover the whole size
	next := 0
	for _, l := range out {
		if l.off != next {
			return nil, false
		}
		next += l.width
	}
	if int64(next) != gcSizes.Sizeof(t) {
		return nil, false
	}
	return out, true
}

// leafSpan: index of the first leaf and number of leaves of the sub-object at path inside root.
func leafSpan(root types.Type, path []int) (int, int) {
	start := 0
	t := root
	for _, k := range path {
		st := t.Underlying().(*types.Struct)
		for i := 0; i < k; i++ {
			start += len(leavesOf(st.Field(i).Type()))
		}
		t = st.Field(k).Type()
	}
	return start, len(leavesOf(t))
}

func (fc *FnCtx) byteHeap(st *State) (string, string) {
	key := "elem|uint8"
	return key, fc.heapSym(st, key, arrSort(true, bvsort(8)))
}

// viewLoad reads the leaves [start, start+n) of a flat struct from the bytes at (ref, idx).
func (fc *FnCtx) viewLoad(st *State, p PtrV, t types.Type) Val {
	lay, ok := flatLayout(p.Root)
	unsupIf(!ok, "byte view of a struct that is not flat (%s)", p.Root)
	start, n := leafSpan(p.Root, p.Path)
	_, h := fc.byteHeap(st)
	reg := app("select", h, p.Ref)
	ts := make([]string, n)
	for i := 0; i < n; i++ {
		l := lay[start+i]
		var parts string
		for k := l.width - 1; k >= 0; k-- {
			b := app("select", reg, app("bvadd", p.Idx, bvlit(uint64(l.off+k), 64)))
			if parts == "" {
				parts = b
			} else {
				parts = parts + " " + b
			}
		}
		if l.width == 1 {
			ts[i] = parts
		} else {
			ts[i] = "(concat " + parts + ")"
		}
	}
	fc.note("unsafe: a struct is read or written through a byte view; gc layout on a little-endian 64-bit machine is assumed, and that the bytes lie inside the allocation is not checked")
	return unflatten(t, &ts)
}

func (fc *FnCtx) viewStore(st *State, p PtrV, t types.Type, v Val) {
	lay, ok := flatLayout(p.Root)
	unsupIf(!ok, "byte view of a struct that is not flat (%s)", p.Root)
	start, n := leafSpan(p.Root, p.Path)
	key, h := fc.byteHeap(st)
	reg := app("select", h, p.Ref)
	ts := flatten(t, v)
	for i := 0; i < n; i++ {
		l := lay[start+i]
		for k := 0; k < l.width; k++ {
			b := ts[i]
			if l.width > 1 {
				b = fmt.Sprintf("((_ extract %d %d) %s)", 8*k+7, 8*k, ts[i])
			}
			reg = app("store", reg, app("bvadd", p.Idx, bvlit(uint64(l.off+k), 64)), b)
		}
	}
	fc.setHeap(st, key, app("store", h, p.Ref, reg))
	fc.note("unsafe: a struct is read or written through a byte view; gc layout on a little-endian 64-bit machine is assumed, and that the bytes lie inside the allocation is not checked")
}

// structAsBytes: *T -> *[N]byte. A fresh byte region mirrors the struct; writes to it are
// written back (viewWriteBack), reads refresh it first (viewRefresh).
func (fc *FnCtx) structAsBytes(st *State, p PtrV, t types.Type, at *types.Array) PtrV {
	_, ok := flatLayout(t)
	unsupIf(!ok || gcSizes.Sizeof(t) != at.Len() || len(p.Path) != 0 && false, "unsafe view of %s as %s", t, at)
	ref := fc.newRef(st, "view")
	if fc.views == nil {
		fc.views = map[string]viewInfo{}
	}
	fc.views[ref] = viewInfo{P: p, T: t}
	fc.viewRefresh(st, ref)
	return PtrV{Kind: PArr, Ref: ref, Root: at}
}

func (fc *FnCtx) viewRefresh(st *State, ref string) {
	vi, ok := fc.views[ref]
	if !ok {
		return
	}
	v := fc.load(st, vi.P, vi.T)
	fc.viewStore(st, PtrV{Kind: PView, Ref: ref, Idx: bvlit(0, 64), Root: vi.T}, vi.T, v)
}

func (fc *FnCtx) viewWriteBack(st *State, ref string) {
	vi, ok := fc.views[ref]
	if !ok {
		return
	}
	v := fc.viewLoad(st, PtrV{Kind: PView, Ref: ref, Idx: bvlit(0, 64), Root: vi.T}, vi.T)
	fc.store(st, vi.P, vi.T, v)
}
