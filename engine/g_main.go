package main

import (
	"encoding/json"
	"flag"
	"fmt"
	"os"
	"path/filepath"
	"sort"
	"strings"
	"sync"
	"sync/atomic"
	"time"

	"golang.org/x/tools/go/ssa"
)

func main() {
	if len(os.Args) < 2 {
		fmt.Fprintln(os.Stderr, "usage: gvc check -prop Cnn [-tier quick|thorough] | gvc fn <key>... | gvc list")
		os.Exit(2)
	}
	cmd := os.Args[1]
	fs := flag.NewFlagSet(cmd, flag.ExitOnError)
	repo := fs.String("repo", "/repo", "repository root")
	verif := fs.String("verif", "/verif", "verification directory")
	prop := fs.String("prop", "", "property id")
	tier := fs.String("tier", envOr("VERIF_TIER", "quick"), "quick or thorough")
	verbose := fs.Bool("v", false, "verbose")
	dump := fs.String("dump", "", "directory to dump all queries into")
	only := fs.String("only", "", "only obligations whose name contains this string")
	fs.Parse(os.Args[2:])
	initScratch()
	defer cleanupScratch()
	t0 := time.Now()
	eng, err := loadEngine(*repo, *verif)
	if err != nil {
		fmt.Fprintln(os.Stderr, "gvc: load failed:", err)
		os.Exit(3)
	}
	loadS := time.Since(t0).Seconds()
	switch cmd {
	case "list":
		for _, k := range eng.cs.Order {
			ct := eng.cs.Funcs[k]
			fmt.Printf("%-60s props=%v trusted=%v light=%v\n", shortKey(k), ct.Props, ct.Trusted, ct.Light)
		}
	case "fn":
		var keys []string
		for _, a := range fs.Args() {
			for _, k := range eng.cs.Order {
				if strings.Contains(shortKey(k), a) {
					keys = append(keys, k)
				}
			}
		}
		rs := eng.verifyAll(keys, *tier, *verbose, *dump, *only)
		ok := report(rs, *verbose)
		fmt.Printf("load %.1fs total %.1fs\n", loadS, time.Since(t0).Seconds())
		if !ok {
			os.Exit(1)
		}
	case "frame":
		// print the inferred frame of the functions whose name contains the argument
		fc := &FnCtx{eng: eng, smt: newSMTCtx(), keySort: map[string]string{}, notes: map[string]bool{}, heap0: map[string]string{}}
		for _, a := range fs.Args() {
			for k, fn := range eng.fnByKey {
				if strings.Contains(shortKey(k), a) {
					fr := fc.inferFrame(fn)
					var ks []string
					for key := range fr.keys {
						ks = append(ks, key)
					}
					sort.Strings(ks)
					fmt.Printf("%s: all=%v (%s) locks=%v keys=%d\n", shortKey(k), fr.all, fr.why, fr.locks, len(ks))
					for _, key := range ks {
						fmt.Println("   ", key)
					}
				}
			}
		}
	case "expect":
		// record the obligation names of the given properties (run on the unchanged tree only)
		for _, p := range strings.Split(*prop, ",") {
			var keys []string
			for _, k := range eng.cs.Order {
				for _, q := range eng.cs.Funcs[k].Props {
					if q == p {
						keys = append(keys, k)
					}
				}
			}
			keys = eng.withDependencies(keys)
			rs := eng.verifyAll(keys, *tier, false, "", "")
			if err := eng.recordLocals(keys); err != nil {
				fmt.Fprintln(os.Stderr, err)
				os.Exit(3)
			}
			if err := eng.writeExpected(p, rs); err != nil {
				fmt.Fprintln(os.Stderr, err)
				os.Exit(3)
			}
			fmt.Printf("expected/%s.json written\n", p)
		}
	case "check":
		code := eng.checkProperty(*prop, *tier, *verbose, *dump, loadS, t0)
		cleanupScratch()
		os.Exit(code)
	default:
		fmt.Fprintln(os.Stderr, "unknown command", cmd)
		os.Exit(2)
	}
}

func envOr(k, d string) string {
	if v := os.Getenv(k); v != "" {
		return v
	}
	return d
}

func (e *Engine) verifyAll(keys []string, tier string, verbose bool, dump, only string) []*FnResult {
	var rs []*FnResult
	for _, k := range keys {
		ct := e.cs.Funcs[k]
		t0 := time.Now()
		r := e.verifyFunction(k, ct)
		if verbose {
			fmt.Printf("generated %-50s %3d obligations in %.2fs %s\n", r.Display, len(r.Obs), time.Since(t0).Seconds(), r.Err)
		}
		rs = append(rs, r)
	}
	if len(keys) > 0 {
		if lr := e.verifyLemmas(); len(lr.Obs) > 0 || lr.Err != "" {
			rs = append(rs, lr)
		}
	}
	var all []*Obligation
	for _, r := range rs {
		for _, o := range r.Obs {
			if only != "" && !strings.Contains(o.Name, only) {
				o.Result = SolverResult{Status: "skipped"}
				continue
			}
			all = append(all, o)
		}
	}
	tmo := 10
	if tier == "thorough" {
		tmo = 60
	}
	if dump != "" {
		os.MkdirAll(dump, 0o755)
		for _, o := range all {
			n := sanitizeRe.ReplaceAllString(o.Fn+"__"+o.Name, "_")
			os.WriteFile(filepath.Join(dump, n+".smt2"), []byte(o.Query+"(check-sat)\n"), 0o644)
		}
	}
	noRetry = map[string]bool{}
	for _, k := range e.loadKnown() {
		if k.Status == "known" {
			noRetry[normOb(k.Obligation)] = true
		}
	}
	runObligations(all, tmo)
	return rs
}

// noRetry: obligations recorded as known findings (an undecided answer is expected for them).
var noRetry = map[string]bool{}

func runObligations(all []*Obligation, tmo int) {
	var wg sync.WaitGroup
	sem := make(chan struct{}, 14)
	for _, o := range all {
		if o.Result.Status != "" {
			continue
		}
		if len(o.Query) > 4<<20 {
			o.Result = SolverResult{Status: "error", Output: "VC too large"}
			continue
		}
		wg.Add(1)
		go func(o *Obligation) {
			defer wg.Done()
			sem <- struct{}{}
			defer func() { <-sem }()
			if o.Expect == "sat" {
				// cover (vacuity) checks: one solver, short budget; "unknown" is not a failure
				n := atomic.AddInt64(&queryCounter, 1)
				o.Result = runOne(solvers[0], o.Query, 3, n, false)
				return
			}
			if o.QueryLite != "" && o.Expect == "unsat" {
				n := atomic.AddInt64(&queryCounter, 1)
				r := runOne(solvers[0], o.QueryLite, 3, n, false)
				if r.Status == "unsat" {
					r.Solver += " (quantifier-free fast path)"
					o.Result = r
					return
				}
			}
			o.Result = runQuery(o.Query, tmo, o.Expect == "unsat")
		}(o)
	}
	wg.Wait()
	// second chance for obligations the solvers gave up on: a timeout is "undecided", and on a
	// busy machine it may only mean the budget was too small. They are retried with four times
	// the budget, a few at a time, before the result is reported.
	var again []*Obligation
	for _, o := range all {
		if o.Expect == "unsat" && (o.Result.Status == "timeout" || o.Result.Status == "unknown") && len(o.Query) <= 4<<20 && !noRetry[normOb(o.Fn+"/"+o.Name)] {
			again = append(again, o)
		}
	}
	if len(again) > 0 && len(again) <= 12 {
		sem2 := make(chan struct{}, 3)
		for _, o := range again {
			wg.Add(1)
			go func(o *Obligation) {
				defer wg.Done()
				sem2 <- struct{}{}
				defer func() { <-sem2 }()
				first := o.Result
				r := runQuery(o.Query, 4*tmo, true)
				r.Seconds += first.Seconds
				if r.Status == "unsat" || r.Status == "sat" {
					r.Solver += " (retried with a longer budget)"
					o.Result = r
				}
			}(o)
		}
		wg.Wait()
	}
}

func (o *Obligation) ok() bool {
	if o.Result.Status == "skipped" {
		return true
	}
	if o.Expect == "sat" {
		return o.Result.Status != "unsat"
	}
	return o.Result.Status == "unsat"
}

func report(rs []*FnResult, verbose bool) bool {
	ok := true
	for _, r := range rs {
		if r.Err != "" {
			fmt.Printf("ERROR  %s: %s\n", r.Display, r.Err)
			ok = false
		}
		nOK := 0
		for _, o := range r.Obs {
			if o.ok() {
				nOK++
				if verbose {
					fmt.Printf("  ok     %-60s %-8s %-12s %.2fs\n", o.Name, o.Result.Status, o.Result.Solver, o.Result.Seconds)
				}
			} else {
				ok = false
				extra := ""
				if o.Result.Status == "error" {
					extra = " [" + trunc(strings.SplitN(o.Result.Output, "\n", 2)[0], 160) + "]"
				}
				fmt.Printf("  FAIL   %s / %s: %s%s (%s, %.2fs) at %s — %s\n", r.Display, o.Name, o.Result.Status, extra, o.Result.Solver, o.Result.Seconds, o.Pos, trunc(o.Desc, 140))
			}
		}
		if verbose || os.Getenv("GVC_NOTES") != "" {
			for _, n := range r.Notes {
				fmt.Printf("  note   %s\n", n)
			}
		}
		tag := "ok"
		if r.Trusted {
			tag = "trusted"
		}
		fmt.Printf("%-8s %-55s %d/%d\n", tag, r.Display, nOK, len(r.Obs))
	}
	return ok
}

// ---------------------------------------------------------------------------------------

type Evidence struct {
	PropertyID  string                 `json:"property_id"`
	Tier        string                 `json:"tier"`
	Seed        int                    `json:"seed"`
	Level       string                 `json:"level"`
	Coverage    map[string]interface{} `json:"coverage"`
	Assumptions []string               `json:"assumptions"`
	WallS       float64                `json:"wall_s"`
	Violations  int                    `json:"violations"`
}

func (e *Engine) checkProperty(prop, tier string, verbose bool, dump string, loadS float64, t0 time.Time) int {
	var keys []string
	for _, k := range e.cs.Order {
		for _, p := range e.cs.Funcs[k].Props {
			if p == prop {
				keys = append(keys, k)
			}
		}
	}
	if len(keys) == 0 {
		fmt.Printf("gvc: no contract is tagged with property %s\n", prop)
		return 2
	}
	keys = e.withDependencies(keys)
	rs := e.verifyAll(keys, tier, verbose, dump, "")
	return e.finish(prop, tier, rs, verbose, loadS, t0)
}

// withDependencies adds the contracts the selected functions rely on: a caller is verified
// against its callees' contracts, so a property's check is complete only when the functions
// under contract that its functions call (directly, or through module functions without
// contract, closures included) are verified in the same run.
func (e *Engine) withDependencies(keys []string) []string {
	have := map[string]bool{}
	for _, k := range keys {
		have[k] = true
	}
	seen := map[*ssa.Function]bool{}
	var visit func(fn *ssa.Function, depth int)
	visit = func(fn *ssa.Function, depth int) {
		// (two calls deep: the callees a proof uses directly and theirs; following the whole
		// call graph from functions like Open would pull in every contract for every property)
		if fn == nil || seen[fn] || depth > 2 {
			return
		}
		seen[fn] = true
		if isForeign(fn) {
			return
		}
		if k, ct := e.contractFor(fn); ct != nil && !ct.Trusted && e.fnByKey[k] != nil && !have[k] {
			have[k] = true
			keys = append(keys, k)
		}
		for _, b := range fn.Blocks {
			for _, ins := range b.Instrs {
				switch x := ins.(type) {
				case ssa.CallInstruction:
					switch c := x.Common().Value.(type) {
					case *ssa.Function:
						visit(c, depth+1)
					case *ssa.MakeClosure:
						visit(c.Fn.(*ssa.Function), depth)
					}
				case *ssa.MakeClosure:
					visit(x.Fn.(*ssa.Function), depth)
				}
			}
		}
	}
	for _, k := range append([]string(nil), keys...) {
		visit(e.fnByKey[k], 0)
	}
	return keys
}

func jsonWrite(path string, v interface{}) error {
	b, err := json.MarshalIndent(v, "", " ")
	if err != nil {
		return err
	}
	os.MkdirAll(filepath.Dir(path), 0o755)
	return os.WriteFile(path, append(b, '\n'), 0o644)
}

func sortedKeys(m map[string]bool) []string {
	var ks []string
	for k := range m {
		ks = append(ks, k)
	}
	sort.Strings(ks)
	return ks
}
