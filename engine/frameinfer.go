package main

// Syntactic, type-based frame inference for functions without a contract: the set of heap
// keys (struct field, element type, cell type, map type) that a function or anything it calls
// may store to. Sound under Go's type safety (no unsafe casts) and the sequential model; used to
// havoc only those keys at calls to functions that have no contract.

import (
	"go/token"
	"go/types"
	"sort"
	"strings"
	"sync"

	"golang.org/x/tools/go/ssa"
)

type inferredFrame struct {
	keys map[string]string
	all  bool
	why  string
	unsafe bool
	locks  bool // some sync Lock/Unlock is reachable
	paramCalls bool // calls its own function-typed parameters: the call site must add their frames
}

var frameMu sync.Mutex
var frameCache = map[*ssa.Function]*inferredFrame{}

func (fc *FnCtx) inferFrame(fn *ssa.Function) *inferredFrame {
	frameMu.Lock()
	defer frameMu.Unlock()
	if f, ok := frameCache[fn]; ok {
		return f
	}
	forceBody := false
	if _, ct := fc.eng.contractFor(fn); ct != nil && ct.AssignsInferred {
		forceBody = true
	}
	res := &inferredFrame{keys: map[string]string{}}
	seen := map[*ssa.Function]bool{}
	var visit func(f *ssa.Function, depth int)
	addLeaves := func(prefix string, elem bool, t types.Type) {
		defer func() {
			if r := recover(); r != nil {
				res.all = true
				res.why = "type outside the subset"
			}
		}()
		for _, l := range leavesOf(t) {
			res.keys[prefix+l.Suffix] = arrSort(elem, l.Sort)
		}
	}
	addAddr := func(v ssa.Value) {
		root, path, space, ok := staticAddr(v)
		if !ok {
			res.all = true
			res.why = "store through an untyped address"
			return
		}
		func() {
			defer func() {
				if r := recover(); r != nil {
					res.all = true
					res.why = "address outside the subset"
				}
			}()
			names, t := pathNames(root, path)
			switch space {
			case "cell":
				if _, isStruct := root.Underlying().(*types.Struct); isStruct {
					addLeaves("fld|"+typeName(root)+names, false, t)
				} else {
					addLeaves("cell|"+typeName(root), false, t)
				}
			case "fld":
				addLeaves("fld|"+typeName(root)+names, false, t)
			case "elem":
				addLeaves("elem|"+typeName(root)+names, true, t)
			}
		}()
	}
	// foreign: a function outside the module is not descended into. It may write the elements
	// of slices it is given, call back function values it is given, and call the methods of
	// interface values it is given (resolved to the module's implementations).
	foreign := func(c *ssa.CallCommon) {
		args := append([]ssa.Value(nil), c.Args...)
		for k := 0; k < len(args); k++ {
			a := args[k]
			// a pointer (or slice) boxed into an interface argument is as exposed as one passed
			// directly: foreign code can write through it by reflection (binary.Read, proto.Unmarshal)
			if mi, ok := a.(*ssa.MakeInterface); ok {
				args = append(args, mi.X)
			}
			switch t := a.Type().Underlying().(type) {
			case *types.Slice:
				addLeaves("elem|"+typeName(t.Elem()), true, t.Elem())
			case *types.Pointer:
				switch et := t.Elem().Underlying().(type) {
				case *types.Basic:
					addLeaves("cell|"+typeName(t.Elem()), false, t.Elem())
				case *types.Slice:
					addLeaves("cell|"+typeName(t.Elem()), false, t.Elem())
					addLeaves("elem|"+typeName(et.Elem()), true, et.Elem())
				case *types.Array:
					addLeaves("elem|"+typeName(et.Elem()), true, et.Elem())
				case *types.Struct:
					if n, ok := t.Elem().(*types.Named); ok && n.Obj().Pkg() != nil && strings.HasPrefix(n.Obj().Pkg().Path(), modPath) {
						// a module struct handed to foreign code (e.g. binary.Read into a struct)
						addLeaves("fld|"+typeName(t.Elem()), false, t.Elem())
					}
				}
			case *types.Signature:
				switch fv := a.(type) {
				case *ssa.MakeClosure:
					visit(fv.Fn.(*ssa.Function), 1)
				case *ssa.Function:
					visit(fv, 1)
				default:
					res.all = true
					res.why = "unknown function value passed to foreign code"
				}
			case *types.Interface:
				if t.NumMethods() == 0 {
					continue // interface{}: printed or stored, not called
				}
				for i := 0; i < t.NumMethods(); i++ {
					for _, m := range fc.eng.implementations(a.Type(), t.Method(i)) {
						if !isForeign(m) {
							visit(m, 1)
						}
					}
				}
			}
		}
	}
	visit = func(f *ssa.Function, depth int) {
		if res.all || seen[f] {
			return
		}
		seen[f] = true
		if len(seen) > 4000 {
			res.all = true
			res.why = "call graph too large"
			return
		}
		full := f.String()
		if f.Origin() != nil {
			full = f.Origin().String()
		}
		if _, ok := natives[full]; ok {
			if strings.HasPrefix(full, "(*sync.Mutex)") || strings.HasPrefix(full, "(*sync.RWMutex)") {
				res.locks = true
			}
			return
		}
		if fc.eng.isPureExternal(full) {
			return
		}
		if _, ct := fc.eng.contractFor(f); ct != nil && !ct.Inline && !(ct.Light && !ct.HasAssigns) && !ct.AssignsInferred && !(depth == 0 && forceBody) {
			ks, all := fc.contractKeys(ct, f, f.Signature, nil)
			if all {
				res.all = true
				res.why = "callee " + full + " assigns everything"
				return
			}
			for _, k := range ks {
				res.keys[k.key] = k.sort
			}
			return
		}
		if len(f.Blocks) == 0 {
			// no Go body (assembly, runtime): assumed not to write modelled heap objects
			pk := ""
			if f.Pkg != nil {
				pk = f.Pkg.Pkg.Path()
			}
			if strings.HasPrefix(pk, "unsafe") || strings.HasPrefix(pk, "reflect") {
				res.all = true
				res.why = "reflect/unsafe"
			}
			return
		}
		for _, b := range f.Blocks {
			for _, ins := range b.Instrs {
				switch x := ins.(type) {
				case *ssa.Store:
					if a, ok := x.Addr.(*ssa.Alloc); ok && !a.Heap {
						// non-escaping local
						if _, isArr := a.Type().(*types.Pointer).Elem().Underlying().(*types.Array); !isArr {
							continue
						}
					}
					addAddr(x.Addr)
				case *ssa.MapUpdate:
					func() {
						defer func() {
							if r := recover(); r != nil {
								res.all = true
								res.why = "map type outside the subset"
							}
						}()
						for _, ks := range fc.mapKeys(x.Map.Type().Underlying().(*types.Map)) {
							res.keys[ks.key] = ks.sort
						}
					}()
				case *ssa.Convert:
					if _, isPtr := x.Type().Underlying().(*types.Pointer); isPtr {
						if b, ok := x.X.Type().Underlying().(*types.Basic); ok && b.Kind() == types.UnsafePointer {
							// unsafe casts in this code base reinterpret byte buffers (skiplist arena, mmap'd
							// files): the typed view and the bytes are the same memory
							res.keys["elem|uint8"] = arrSort(true, bvsort(8))
							res.unsafe = true
						}
					}
				case ssa.CallInstruction:
					c := x.Common()
					// A pointer to a by-value struct field (&x.f, also as a method receiver x.f.m())
					// handed to a callee: the callee's writes are recorded under the field type's
					// keys, but the memory is a part of x. Every leaf below x.f may be written.
					for _, av := range c.Args {
						root, path, space, ok := staticAddr(av)
						if !ok || len(path) == 0 || space != "fld" {
							continue
						}
						func() {
							defer func() { recover() }()
							names, t := pathNames(root, path)
							if _, isStruct := t.Underlying().(*types.Struct); !isStruct {
								return
							}
							tn := typeName(t)
							if strings.HasPrefix(tn, "sync.") || strings.HasPrefix(tn, "atomic.") || strings.HasPrefix(tn, "sync/atomic.") {
								return // locks and atomics are modelled natively under the enclosing struct's keys
							}
							for _, l := range leavesOf(t) {
								k := "fld|" + typeName(root) + names + l.Suffix
								if !fc.isStableKey(k) {
									res.keys[k] = arrSort(false, l.Sort)
								}
							}
						}()
					}
					if c.IsInvoke() {
						key := "::(" + typeNameFull(c.Value.Type()) + ")." + c.Method.Name()
						if ct := fc.eng.cs.Funcs[key]; ct != nil {
							ks, all := fc.contractKeys(ct, nil, c.Method.Type().(*types.Signature), c.Value.Type())
							if all {
								res.all = true
								res.why = "interface contract assigns everything"
							}
							for _, k := range ks {
								res.keys[k.key] = k.sort
							}
							continue
						}
						if isErrorMethod(c.Value.Type(), c.Method.Name()) {
							continue
						}
						// class-hierarchy resolution: every concrete method with this name
						impls := fc.eng.implementations(c.Value.Type(), c.Method)
						if impls == nil {
							res.all = true
							res.why = "interface call " + c.Method.Name() + " cannot be resolved"
							continue
						}
						foreignImpl := false
						for _, m := range impls {
							if isForeign(m) {
								foreignImpl = true
								continue
							}
							visit(m, depth+1)
						}
						if foreignImpl {
							foreign(c)
						}
						continue
					}
					switch callee := c.Value.(type) {
					case *ssa.Builtin:
						switch callee.Name() {
						case "append", "copy":
							if s, ok := c.Args[0].Type().Underlying().(*types.Slice); ok {
								addLeaves("elem|"+typeName(s.Elem()), true, s.Elem())
							}
						case "delete":
							func() {
								defer func() { recover() }()
								for _, ks := range fc.mapKeys(c.Args[0].Type().Underlying().(*types.Map)) {
									res.keys[ks.key] = ks.sort
								}
							}()
						case "clear":
							res.all = true
							res.why = "clear"
						}
					case *ssa.Function:
						cf := callee.String()
						if strings.HasPrefix(cf, "sync/atomic.") || strings.HasPrefix(cf, "(*sync/atomic.") {
							if len(c.Args) > 0 {
								if _, isPtr := c.Args[0].Type().Underlying().(*types.Pointer); isPtr && !strings.Contains(cf, "Load") {
									addAddr(c.Args[0])
								}
							}
							continue
						}
						if isForeign(callee) {
							if _, ct := fc.eng.contractFor(callee); ct == nil || ct.Inline {
								foreign(c)
								continue
							}
						}
						// function-valued arguments may be called by the callee
						for _, a := range c.Args {
							if _, isSig := a.Type().Underlying().(*types.Signature); isSig {
								fns := resolveFuncValue(a, 0)
								if fns == nil {
									if _, isParam := a.(*ssa.Parameter); isParam && depth > 0 {
										continue
									}
									res.all = true
									res.why = "unknown function value (" + a.String() + ") passed to " + callee.String() + " in " + full
									break
								}
								for _, g := range fns {
									visit(g, depth+1)
								}
							}
						}
						visit(callee, depth+1)
					case *ssa.MakeClosure:
						visit(callee.Fn.(*ssa.Function), depth+1)
					default:
						if fns := resolveFuncValue(c.Value, 0); fns != nil {
							for _, g := range fns {
								visit(g, depth+1)
							}
							continue
						}
						// call through a function value: bound closures created in this function are
						// covered by MakeClosure below; anything else is unknown
						isParam := false
						if _, ok := c.Value.(*ssa.Parameter); ok || derivesFromParam(c.Value, 0) {
							isParam = true
						}
						if isParam && depth > 0 {
							// covered where this function is called: the caller's function-valued
							// arguments are visited there
							continue
						} else if isParam {
							res.paramCalls = true
							continue
						} else {
							res.all = true
							res.why = "dynamic call in " + full + ": " + x.String()
						}
					}
				case *ssa.MakeClosure:
					// the closure may be called later; its effects are attributed here
					visit(x.Fn.(*ssa.Function), depth+1)
				}
			}
		}
	}
	visit(fn, 0)
	frameCache[fn] = res
	return res
}

// resolveFuncValue: the functions a function-typed value can denote, when that can be read off
// the SSA (closures and functions returned by a statically known callee, phis of those).
func resolveFuncValue(v ssa.Value, depth int) []*ssa.Function {
	if depth > 8 {
		return nil
	}
	switch x := v.(type) {
	case *ssa.Const:
		if x.IsNil() {
			return []*ssa.Function{} // nil function value: calling it panics, no effect
		}
		return nil
	case *ssa.Function:
		return []*ssa.Function{x}
	case *ssa.ChangeType:
		return resolveFuncValue(x.X, depth+1)
	case *ssa.MakeClosure:
		return []*ssa.Function{x.Fn.(*ssa.Function)}
	case *ssa.Phi:
		var out []*ssa.Function
		for _, e := range x.Edges {
			r := resolveFuncValue(e, depth+1)
			if r == nil {
				return nil
			}
			out = append(out, r...)
		}
		return out
	case *ssa.UnOp:
		if fa, isField := x.X.(*ssa.FieldAddr); isField && x.Op == token.MUL {
			// a function-typed struct field: every function the program ever stores into it
			return funcFieldTargets(fa)
		}
		// load from a local cell (named result): every value stored into it
		a, ok := x.X.(*ssa.Alloc)
		if !ok || x.Op != token.MUL {
			return nil
		}
		var out []*ssa.Function
		found := false
		for _, b := range a.Parent().Blocks {
			for _, ins := range b.Instrs {
				if st, ok := ins.(*ssa.Store); ok && st.Addr == a {
					if c, isConst := st.Val.(*ssa.Const); isConst && c.IsNil() {
						continue
					}
					r := resolveFuncValue(st.Val, depth+1)
					if r == nil {
						return nil
					}
					found = true
					out = append(out, r...)
				}
			}
		}
		if !found {
			return nil
		}
		return out
	case *ssa.Extract:
		call, ok := x.Tuple.(*ssa.Call)
		if !ok {
			return nil
		}
		callee := call.Common().StaticCallee()
		if callee == nil || len(callee.Blocks) == 0 {
			return nil
		}
		var out []*ssa.Function
		for _, b := range callee.Blocks {
			if ret, ok := b.Instrs[len(b.Instrs)-1].(*ssa.Return); ok {
				r := resolveFuncValue(ret.Results[x.Index], depth+1)
				if r == nil {
					return nil
				}
				out = append(out, r...)
			}
		}
		return out
	case *ssa.Call:
		callee := x.Common().StaticCallee()
		if callee == nil || len(callee.Blocks) == 0 {
			return nil
		}
		var out []*ssa.Function
		for _, b := range callee.Blocks {
			if ret, ok := b.Instrs[len(b.Instrs)-1].(*ssa.Return); ok && len(ret.Results) == 1 {
				r := resolveFuncValue(ret.Results[0], depth+1)
				if r == nil {
					return nil
				}
				out = append(out, r...)
			}
		}
		return out
	}
	return nil
}

var fieldStores map[string][]ssa.Value // "pkg.Type.field" -> values stored anywhere in the module
var theProg *ssa.Program

// funcFieldTargets: all functions stored into this struct field anywhere in the module. If the
// field is never stored to (always nil) the call cannot happen on a non-panicking path.
func funcFieldTargets(fa *ssa.FieldAddr) []*ssa.Function {
	st, ok := fa.X.Type().Underlying().(*types.Pointer).Elem().Underlying().(*types.Struct)
	if !ok || theProg == nil {
		return nil
	}
	key := typeNameFull(fa.X.Type().Underlying().(*types.Pointer).Elem()) + "." + st.Field(fa.Field).Name()
	if fieldStores == nil {
		fieldStores = map[string][]ssa.Value{}
		for _, pkg := range theProg.AllPackages() {
			if !strings.HasPrefix(pkg.Pkg.Path(), modPath) {
				continue
			}
			for _, m := range pkg.Members {
				var fns []*ssa.Function
				switch x := m.(type) {
				case *ssa.Function:
					fns = append(fns, x)
				case *ssa.Type:
					for _, t := range []types.Type{x.Type(), types.NewPointer(x.Type())} {
						ms := theProg.MethodSets.MethodSet(t)
						for i := 0; i < ms.Len(); i++ {
							if f := theProg.MethodValue(ms.At(i)); f != nil {
								fns = append(fns, f)
							}
						}
					}
				}
				for len(fns) > 0 {
					f := fns[0]
					fns = fns[1:]
					fns = append(fns, f.AnonFuncs...)
					for _, b := range f.Blocks {
						for _, ins := range b.Instrs {
							if s, ok := ins.(*ssa.Store); ok {
								if fa2, ok := s.Addr.(*ssa.FieldAddr); ok {
									if _, isSig := s.Val.Type().Underlying().(*types.Signature); isSig {
										st2 := fa2.X.Type().Underlying().(*types.Pointer).Elem().Underlying().(*types.Struct)
										k2 := typeNameFull(fa2.X.Type().Underlying().(*types.Pointer).Elem()) + "." + st2.Field(fa2.Field).Name()
										fieldStores[k2] = append(fieldStores[k2], s.Val)
									}
								}
							}
						}
					}
				}
			}
		}
	}
	vals := fieldStores[key]
	out := []*ssa.Function{}
	for _, v := range vals {
		if c, isConst := v.(*ssa.Const); isConst && c.IsNil() {
			continue
		}
		r := resolveFuncValue(v, 3)
		if r == nil {
			return nil
		}
		out = append(out, r...)
	}
	return out
}

func isForeign(f *ssa.Function) bool {
	if f.Pkg == nil {
		if f.Origin() != nil && f.Origin().Pkg != nil {
			return !strings.HasPrefix(f.Origin().Pkg.Pkg.Path(), modPath)
		}
		return true
	}
	return !strings.HasPrefix(f.Pkg.Pkg.Path(), modPath)
}

// implementations: concrete methods that an interface method call may dispatch to (class
// hierarchy analysis over all types of the loaded program).
func (e *Engine) implementations(recv types.Type, m *types.Func) []*ssa.Function {
	iface, ok := recv.Underlying().(*types.Interface)
	if !ok {
		return nil
	}
	e.mu.Lock()
	if e.implCache == nil {
		e.implCache = map[string][]*ssa.Function{}
	}
	key := typeNameFull(recv) + "." + m.Name()
	if v, ok := e.implCache[key]; ok {
		e.mu.Unlock()
		return v
	}
	e.mu.Unlock()
	var out []*ssa.Function
	for _, t := range e.prog.RuntimeTypes() {
		if !types.Implements(t, iface) {
			continue
		}
		ms := e.prog.MethodSets.MethodSet(t)
		sel := ms.Lookup(m.Pkg(), m.Name())
		if sel == nil {
			continue
		}
		if f := e.prog.MethodValue(sel); f != nil {
			out = append(out, f)
		}
	}
	sort.Slice(out, func(i, j int) bool { return out[i].String() < out[j].String() })
	if len(out) == 0 || len(out) > 400 {
		out = nil
	}
	e.mu.Lock()
	e.implCache[key] = out
	e.mu.Unlock()
	return out
}

// derivesFromParam: the function value is a function-typed parameter of this function or of an
// enclosing one, read back from the cell it was spilled to (captured by a closure).
func derivesFromParam(v ssa.Value, depth int) bool {
	if depth > 6 {
		return false
	}
	switch x := v.(type) {
	case *ssa.Parameter:
		_, isSig := x.Type().Underlying().(*types.Signature)
		return isSig
	case *ssa.UnOp:
		if x.Op != token.MUL {
			return false
		}
		switch c := x.X.(type) {
		case *ssa.Alloc:
			return cellHoldsOnlyParam(c, depth)
		case *ssa.FreeVar:
			fn := c.Parent()
			if fn == nil || fn.Parent() == nil {
				return false
			}
			idx := -1
			for i, fv := range fn.FreeVars {
				if fv == c {
					idx = i
				}
			}
			if idx < 0 {
				return false
			}
			found := false
			for _, b := range fn.Parent().Blocks {
				for _, ins := range b.Instrs {
					mc, ok := ins.(*ssa.MakeClosure)
					if !ok || mc.Fn != fn || idx >= len(mc.Bindings) {
						continue
					}
					found = true
					switch bv := mc.Bindings[idx].(type) {
					case *ssa.Alloc:
						if !cellHoldsOnlyParam(bv, depth) {
							return false
						}
					case *ssa.FreeVar:
						// captured again from a further enclosing function
						if !derivesFromParam(&ssa.UnOp{Op: token.MUL, X: bv}, depth+1) {
							return false
						}
					default:
						return false
					}
				}
			}
			return found
		}
	case *ssa.FreeVar:
		return false
	}
	return false
}

func cellHoldsOnlyParam(a *ssa.Alloc, depth int) bool {
	found := false
	for _, b := range a.Parent().Blocks {
		for _, ins := range b.Instrs {
			if st, ok := ins.(*ssa.Store); ok && st.Addr == a {
				if !derivesFromParam(st.Val, depth+1) {
					return false
				}
				found = true
			}
		}
	}
	return found
}
