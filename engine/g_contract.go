package main

// Reader for the //@ contract files (zz_verif_contracts.go in each /repo package, plus
// /verif/contracts/*.gvc for trusted standard-library contracts and shared spec functions).

import (
	"fmt"
	"os"
	"regexp"
	"strings"
)

type Clause struct {
	Kind string // requires ensures invariant decreases reveal assert assume-not-allowed
	Name string // optional [name]
	Src  string
	E    *Expr
	Loop int    // for loop clauses
	At   string // for assert: anchor
	Havoc []*Clause // for rely: locations another goroutine may have changed while this one was blocked
	File string
	Line int
}

type Param struct {
	Name string
	Type *TypeExpr
}

type SpecFn struct {
	Name     string
	Params   []Param
	Ret      *TypeExpr
	Body     *Expr // nil for declared (uninterpreted)
	Opaque   bool
	Pkg      string // package path the declaration lives in (for resolving type names)
	File     string
	Line     int
}

type Axiom struct {
	Name string
	E    *Expr // quantified; instantiated on its triggers
	Pkg  string
	Src  string
	Proved bool // declared with "lemma": proved by the engine, not assumed
}

type Contract struct {
	Key      string // function key relative to package (or absolute for foreign functions)
	Pkg      string
	Trusted  bool
	Inline   bool
	Light    bool // light (tolerant) mode: only pre-of/assert obligations, unknown constructs havoc
	Props    []string
	Requires []*Clause
	Reveals  []*Clause
	Domain   []*Clause // verified only for inputs satisfying these; not checked at call sites (ensures become conditional)
	Ensures  []*Clause
	Assigns  []*Clause // each: one lvalue expression, or "nothing"/"everything"
	HasAssigns bool
	AssignsInferred bool
	Loops    map[int][]*Clause
	Asserts  []*Clause
	Relies   []*Clause // assumed guarantees of concurrent counterparts at blocking points (select / receive)
	Pure     bool
	File     string
	Line     int
	NoPanic  bool // default true; "maypanic" disables panic obligations (used for trusted)
	Notes    []string
}

// usesInferredFrame: "assigns inferred", or a light-mode contract without any assigns clause.
func (ct *Contract) usesInferredFrame() bool {
	return ct.AssignsInferred || (ct.Light && !ct.HasAssigns)
}

type ContractSet struct {
	Funcs   map[string]*Contract // key: pkgpath + "::" + key
	Specs   map[string]*SpecFn
	Axioms  []*Axiom
	Stable  map[string]bool // "pkg.Type.field"
	Ghosts  map[string]*TypeExpr
	ConstGlobals map[string]string
	Order   []string
}

var kwRe = regexp.MustCompile(`^(func|trusted|spec|opaque|declare|axiom|lemma|constglobal|props|requires|reveal|domain|ensures|assigns|loop|inline|light|assert|reach|rely|pure|stable|ghost|maypanic|note)\b`)
var nameRe = regexp.MustCompile(`^\[([A-Za-z0-9_\-:#.]+)\]\s*`)

func newContractSet() *ContractSet {
	return &ContractSet{Funcs: map[string]*Contract{}, Specs: map[string]*SpecFn{}, Stable: map[string]bool{}, Ghosts: map[string]*TypeExpr{}, ConstGlobals: map[string]string{}}
}

type rawLine struct {
	text string
	line int
}

// readContractFile parses one file. pkgPath is the Go package the file belongs to ("" for
// shared files, where function keys must be absolute).
func (cs *ContractSet) readContractFile(path, pkgPath string) error {
	data, err := os.ReadFile(path)
	if err != nil {
		return err
	}
	var lines []rawLine
	for i, l := range strings.Split(string(data), "\n") {
		t := strings.TrimSpace(l)
		// gofmt rewrites "//@" to "// @" inside doc comments: both forms are contract lines
		if strings.HasPrefix(t, "// @") {
			t = "//@" + t[4:]
		}
		if !strings.HasPrefix(t, "//@") {
			continue
		}
		t = t[3:]
		if j := strings.Index(t, " // "); j >= 0 {
			t = t[:j]
		}
		if strings.TrimSpace(t) == "" {
			continue
		}
		lines = append(lines, rawLine{t, i + 1})
	}
	// join continuation lines
	var stmts []rawLine
	for _, l := range lines {
		tt := strings.TrimSpace(l.text)
		if kwRe.MatchString(tt) || len(stmts) == 0 {
			stmts = append(stmts, rawLine{tt, l.line})
		} else {
			stmts[len(stmts)-1].text += " " + tt
		}
	}
	var cur *Contract
	for _, s := range stmts {
		t := s.text
		fail := func(f string, a ...interface{}) error {
			return fmt.Errorf("%s:%d: %s", path, s.line, fmt.Sprintf(f, a...))
		}
		word := kwRe.FindString(t)
		rest := strings.TrimSpace(t[len(word):])
		switch word {
		case "func", "trusted":
			trusted := false
			if word == "trusted" {
				trusted = true
				if !strings.HasPrefix(rest, "func") {
					// "trusted" as a clause inside a func block
					if cur == nil {
						return fail("trusted outside func")
					}
					cur.Trusted = true
					continue
				}
				rest = strings.TrimSpace(rest[4:])
			}
			key := rest
			cur = &Contract{Key: key, Pkg: pkgPath, Trusted: trusted, Loops: map[int][]*Clause{}, File: path, Line: s.line, NoPanic: true}
			full := pkgPath + "::" + key
			if isAbsKey(key) {
				key = key[1:]
				cur.Key = key
				full = "::" + key
			}
			if _, dup := cs.Funcs[full]; dup {
				return fail("duplicate contract for %s", key)
			}
			cs.Funcs[full] = cur
			cs.Order = append(cs.Order, full)
		case "props":
			if cur == nil {
				return fail("props outside func")
			}
			cur.Props = append(cur.Props, strings.Fields(strings.ReplaceAll(rest, ",", " "))...)
		case "inline":
			cur.Inline = true
		case "light":
			cur.Light = true
		case "pure":
			cur.Pure = true
		case "maypanic":
			cur.NoPanic = false
		case "note":
			if cur != nil {
				cur.Notes = append(cur.Notes, rest)
			}
		case "reveal":
			// function-level reveal: the definition of an opaque spec function at the given
			// arguments (evaluated at function entry) is available to the proof
			if cur == nil {
				return fail("reveal outside func")
			}
			for _, part := range splitTop(rest, ',') {
				c, err := mkClause("reveal", strings.TrimSpace(part), path, s.line)
				if err != nil {
					return fail("%v", err)
				}
				cur.Reveals = append(cur.Reveals, c)
			}
		case "domain":
			if cur == nil {
				return fail("domain outside func")
			}
			c, err := mkClause(word, rest, path, s.line)
			if err != nil {
				return fail("%v", err)
			}
			cur.Domain = append(cur.Domain, c)
		case "requires", "ensures":
			if cur == nil {
				return fail("%s outside func", word)
			}
			c, err := mkClause(word, rest, path, s.line)
			if err != nil {
				return fail("%v", err)
			}
			if word == "requires" {
				cur.Requires = append(cur.Requires, c)
			} else {
				cur.Ensures = append(cur.Ensures, c)
			}
		case "assigns":
			if cur == nil {
				return fail("assigns outside func")
			}
			cur.HasAssigns = true
			for _, part := range splitTop(rest, ',') {
				part = strings.TrimSpace(part)
				if part == "nothing" {
					continue
				}
				if part == "inferred" {
					// the frame is the syntactic, type-based one computed from the body
					cur.AssignsInferred = true
					continue
				}
				c, err := mkClause("assigns", part, path, s.line)
				if err != nil {
					return fail("%v", err)
				}
				cur.Assigns = append(cur.Assigns, c)
			}
		case "loop":
			if cur == nil {
				return fail("loop outside func")
			}
			var n int
			var kind string
			if _, err := fmt.Sscanf(rest, "%d %s", &n, &kind); err != nil {
				return fail("bad loop clause")
			}
			i := strings.Index(rest, kind)
			body := strings.TrimSpace(rest[i+len(kind):])
			k2 := kind
			if j := strings.Index(kind, "["); j >= 0 {
				k2 = kind[:j]
				body = kind[j:] + " " + body
			}
			if k2 == "reveal" {
				for _, part := range splitTop(body, ',') {
					c, err := mkClause("reveal", strings.TrimSpace(part), path, s.line)
					if err != nil {
						return fail("%v", err)
					}
					c.Loop = n
					cur.Loops[n] = append(cur.Loops[n], c)
				}
				continue
			}
			if k2 != "invariant" && k2 != "decreases" && k2 != "modifies" {
				return fail("unknown loop clause %q", kind)
			}
			c, err := mkClause(k2, body, path, s.line)
			if err != nil {
				return fail("%v", err)
			}
			c.Loop = n
			cur.Loops[n] = append(cur.Loops[n], c)
		case "assert", "reach":
			// assert[name] <anchor> : expr
			// reach[name] <anchor> : expr   -- the anchored instruction can be reached with expr
			// true (a satisfiability obligation: it fails when the path has become infeasible,
			// e.g. because the branch that leads there can no longer be taken)
			if cur == nil {
				return fail("assert outside func")
			}
			name := ""
			if m := nameRe.FindStringSubmatch(rest); m != nil {
				name = m[1]
				rest = rest[len(m[0]):]
			}
			i := strings.Index(rest, " : ")
			if i < 0 {
				return fail("assert needs '<anchor> : expr'")
			}
			c, err := mkClause("assert", strings.TrimSpace(rest[i+3:]), path, s.line)
			if err != nil {
				return fail("%v", err)
			}
			c.Name = name
			c.At = strings.TrimSpace(rest[:i])
			if word == "reach" {
				c.Kind = "reach"
			}
			cur.Asserts = append(cur.Asserts, c)
		case "rely":
			// rely[name] after select[#k] [havoc lv, lv] : expr
			// An assumption about what other goroutines guarantee while this one is blocked.
			if cur == nil {
				return fail("rely outside func")
			}
			name := ""
			if m := nameRe.FindStringSubmatch(rest); m != nil {
				name = m[1]
				rest = rest[len(m[0]):]
			}
			i := strings.Index(rest, " : ")
			if i < 0 {
				return fail("rely needs 'after select[#k] [havoc lvalues] : expr'")
			}
			c, err := mkClause("rely", strings.TrimSpace(rest[i+3:]), path, s.line)
			if err != nil {
				return fail("%v", err)
			}
			c.Name = name
			at := strings.TrimSpace(rest[:i])
			if j := strings.Index(at, " havoc "); j >= 0 {
				for _, part := range splitTop(at[j+7:], ',') {
					h, err := mkClause("assigns", strings.TrimSpace(part), path, s.line)
					if err != nil {
						return fail("%v", err)
					}
					c.Havoc = append(c.Havoc, h)
				}
				at = strings.TrimSpace(at[:j])
			}
			c.At = at
			cur.Relies = append(cur.Relies, c)
		case "spec", "opaque", "declare":
			opaque := false
			if word == "opaque" {
				opaque = true
				rest = strings.TrimSpace(strings.TrimPrefix(rest, "spec"))
			}
			sf, err := parseSpecDecl(rest, word == "declare")
			if err != nil {
				return fail("%v", err)
			}
			sf.Opaque = opaque
			sf.Pkg = pkgPath
			sf.File, sf.Line = path, s.line
			if _, dup := cs.Specs[sf.Name]; dup {
				return fail("duplicate spec function %s", sf.Name)
			}
			cs.Specs[sf.Name] = sf
			cur = nil
		case "axiom", "lemma":
			// "lemma" is used like an axiom but is itself proved (with every spec function
			// revealed) in each run that can use it.
			i := strings.Index(rest, ":")
			if i < 0 {
				return fail("%s needs 'name: expr'", word)
			}
			e, err := parseExpr(strings.TrimSpace(rest[i+1:]))
			if err != nil {
				return fail("%v", err)
			}
			cs.Axioms = append(cs.Axioms, &Axiom{Name: strings.TrimSpace(rest[:i]), E: e, Pkg: pkgPath, Src: rest[i+1:], Proved: word == "lemma"})
			cur = nil
		case "constglobal":
			// constglobal name "content": a package-level []byte that is never modified
			fs := strings.SplitN(rest, " ", 2)
			if len(fs) != 2 {
				return fail("constglobal needs 'name \"content\"'")
			}
			v, err := unquote(strings.TrimSpace(fs[1]))
			if err != nil {
				return fail("%v", err)
			}
			cs.ConstGlobals[pkgPath+"."+fs[0]] = v
			cur = nil
		case "stable":
			for _, f := range strings.Fields(strings.ReplaceAll(rest, ",", " ")) {
				cs.Stable[f] = true
			}
		case "ghost":
			// ghost name type
			fs := strings.Fields(rest)
			if len(fs) != 2 {
				return fail("ghost needs 'name type'")
			}
			cs.Ghosts[fs[0]] = &TypeExpr{K: "name", Name: fs[1]}
		default:
			return fail("cannot parse %q", t)
		}
	}
	return nil
}

func isAbsKey(key string) bool { return strings.HasPrefix(key, "@") }

func mkClause(kind, src, file string, line int) (*Clause, error) {
	name := ""
	if m := nameRe.FindStringSubmatch(src); m != nil {
		name = m[1]
		src = src[len(m[0]):]
	}
	c := &Clause{Kind: kind, Name: name, Src: src, File: file, Line: line}
	if kind == "assigns" && (src == "everything" || strings.HasPrefix(src, "ghost ")) {
		return c, nil
	}
	e, err := parseExpr(src)
	if err != nil {
		return nil, err
	}
	c.E = e
	return c, nil
}

func splitTop(s string, sep rune) []string {
	var out []string
	d := 0
	last := 0
	for i, c := range s {
		switch c {
		case '(', '[', '{':
			d++
		case ')', ']', '}':
			d--
		}
		if c == sep && d == 0 {
			out = append(out, s[last:i])
			last = i + 1
		}
	}
	out = append(out, s[last:])
	return out
}

func parseSpecDecl(s string, declOnly bool) (*SpecFn, error) {
	i := strings.Index(s, "(")
	if i < 0 {
		return nil, fmt.Errorf("spec needs parameter list")
	}
	sf := &SpecFn{Name: strings.TrimSpace(s[:i])}
	// find matching paren
	d := 0
	j := i
	for ; j < len(s); j++ {
		if s[j] == '(' {
			d++
		} else if s[j] == ')' {
			d--
			if d == 0 {
				break
			}
		}
	}
	if j >= len(s) {
		return nil, fmt.Errorf("unbalanced parens in spec")
	}
	ps := strings.TrimSpace(s[i+1 : j])
	if ps != "" {
		for _, p := range splitTop(ps, ',') {
			p = strings.TrimSpace(p)
			k := strings.IndexAny(p, " \t")
			if k < 0 {
				return nil, fmt.Errorf("bad spec parameter %q", p)
			}
			ty, err := parseTypeStr(strings.TrimSpace(p[k:]))
			if err != nil {
				return nil, err
			}
			sf.Params = append(sf.Params, Param{p[:k], ty})
		}
	}
	rest := strings.TrimSpace(s[j+1:])
	var rt string
	if k := strings.Index(rest, "="); k >= 0 && !declOnly {
		rt = strings.TrimSpace(rest[:k])
		body, err := parseExpr(strings.TrimSpace(rest[k+1:]))
		if err != nil {
			return nil, err
		}
		sf.Body = body
	} else {
		rt = rest
	}
	ty, err := parseTypeStr(rt)
	if err != nil {
		return nil, err
	}
	sf.Ret = ty
	return sf, nil
}

func parseTypeStr(s string) (t *TypeExpr, err error) {
	toks, err := lex(s)
	if err != nil {
		return nil, err
	}
	ps := &parser{toks: toks, src: s}
	defer func() {
		if r := recover(); r != nil {
			if pe, ok := r.(parseErr); ok {
				err = fmt.Errorf("%s (in type %q)", string(pe), s)
				return
			}
			panic(r)
		}
	}()
	t = ps.typeExpr()
	return t, nil
}
