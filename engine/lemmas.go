package main

// Proved lemmas ("//@ lemma name: forall ... :: P"): used like axioms by every function, and
// proved here with every opaque specification function revealed.

import (
	"go/token"
	"go/types"

	"golang.org/x/tools/go/ssa"
)

func (e *Engine) verifyLemmas() *FnResult {
	res := &FnResult{Key: "::lemmas", Display: "lemmas"}
	for _, ax := range e.cs.Axioms {
		if !ax.Proved {
			continue
		}
		func() {
			fc := &FnCtx{eng: e, smt: newSMTCtx(), vals: map[ssa.Value]Val{}, heap0: map[string]string{},
				keySort: map[string]string{}, counts: map[string]int{}, touched: map[string]bool{}, notes: map[string]bool{},
				callOrd: map[string]int{}, knownNonNil: map[string]bool{}, baseAlloc: map[int]string{}}
			defer func() {
				res.Obs = append(res.Obs, fc.obs...)
				if r := recover(); r != nil {
					switch x := r.(type) {
					case unsupported:
						res.Err = "lemma " + ax.Name + ": " + string(x)
					case specErr:
						res.Err = "lemma " + ax.Name + ": " + string(x)
					default:
						panic(r)
					}
				}
			}()
			st := &State{guard: "true", heap: map[string]string{}}
			st.alloc = fc.smt.declare("alloc0", "Int")
			fc.baseAlloc[0] = st.alloc
			fc.pre = st.clone()
			fc.curSt = st
			env := &SpecEnv{fc: fc, st: st, old: fc.pre, pkg: e.typesPkg(ax.Pkg), vars: map[string]TV{}, transparent: true, depth: 10}
			if env.pkg == nil {
				env.pkg = e.pkgByPath[modPath]
			}
			q := ax.E
			if q.K != "quant" || q.Op != "forall" {
				sfail("lemma must be a universally quantified formula")
			}
			for _, b := range q.Vars {
				t := env.resolveType(b.Type)
				v := fc.fresh(t, "sk_"+b.Name)
				fc.assume(st, fc.typeInv(st, t, v))
				env = env.with(b.Name, TV{v, t})
			}
			fc.prove(env, q.X[0], st, "lemma:"+ax.Name, "post", token.NoPos, ax.Src)
		}()
	}
	return res
}

var _ types.Type
