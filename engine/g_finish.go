package main

// Verdict, evidence, violations, known findings, expected-obligation bookkeeping.

import (
	"encoding/json"
	"fmt"
	"os"
	"path/filepath"
	"sort"
	"strings"
	"time"
)

type KnownFinding struct {
	Property   string `json:"property"`
	Status     string `json:"status"` // known | fixed
	Obligation string `json:"obligation"`
	Witness    string `json:"witness"`
	What       string `json:"what"`
	Commit     string `json:"commit,omitempty"`
	Line       string `json:"line,omitempty"`
}

func (e *Engine) loadKnown() []KnownFinding {
	var kf struct {
		Findings []KnownFinding `json:"findings"`
	}
	b, err := os.ReadFile(filepath.Join(e.verifDir, "known_findings.json"))
	if err != nil {
		return nil
	}
	if err := json.Unmarshal(b, &kf); err != nil {
		fmt.Fprintln(os.Stderr, "gvc: known_findings.json:", err)
		return nil
	}
	return kf.Findings
}

type expectedFile struct {
	Property    string   `json:"property"`
	Obligations []string `json:"obligations"`
}

func contractDerived(kind string) bool {
	switch kind {
	case "post", "pre-of", "assert", "inv-entry", "inv-keep", "frame", "decreases":
		return true
	}
	return false
}

func (e *Engine) finish(prop, tier string, rs []*FnResult, verbose bool, loadS float64, t0 time.Time) int {
	report(rs, verbose)
	known := e.loadKnown()
	outDir := filepath.Join(e.verifDir, "out", prop)
	os.RemoveAll(outDir)
	os.MkdirAll(outDir, 0o755)

	var all []*Obligation
	fnByOb := map[*Obligation]*FnResult{}
	var assumptions = map[string]bool{}
	type fnInfo struct {
		Name        string `json:"name"`
		File        string `json:"file"`
		Obligations int    `json:"obligations"`
		Light       bool   `json:"light_mode,omitempty"`
	}
	var fns []fnInfo
	var trusted []string
	violations := 0
	var vioLines []string
	var knownSeen []string
	for _, r := range rs {
		for _, n := range r.Notes {
			assumptions[n] = true
		}
		if r.Trusted {
			trusted = append(trusted, r.Display)
			continue
		}
		ct := e.cs.Funcs[r.Key]
		fns = append(fns, fnInfo{r.Display, strings.TrimPrefix(r.File, e.repo+"/"), len(r.Obs), ct != nil && ct.Light})
		for _, o := range r.Obs {
			all = append(all, o)
			fnByOb[o] = r
		}
		if r.Err != "" {
			// the function could not be translated: every property it serves is undecided
			path := filepath.Join(outDir, sanitizeRe.ReplaceAllString(r.Display, "_")+".engine-error.replay.json")
			jsonWrite(path, map[string]interface{}{"property": prop, "function": r.Display, "obligation": r.Display + "/translation",
				"status": "engine-error", "error": r.Err, "no_failing_input_found": true})
			vioLines = append(vioLines, fmt.Sprintf("VIOLATION property=%s replay=%s obligation=%s/translation no-failing-input-found", prop, path, r.Display))
			violations++
		}
	}
	// expected obligations
	present := map[string]bool{}
	for _, o := range all {
		present[o.Fn+"/"+o.Name] = true
	}
	expPath := filepath.Join(e.verifDir, "expected", prop+".json")
	if b, err := os.ReadFile(expPath); err == nil {
		var ef expectedFile
		if json.Unmarshal(b, &ef) == nil {
			for _, n := range ef.Obligations {
				if !present[n] {
					path := filepath.Join(outDir, sanitizeRe.ReplaceAllString(n, "_")+".missing.replay.json")
					jsonWrite(path, map[string]interface{}{"property": prop, "obligation": n, "status": "not-generated",
						"explanation": "this obligation is recorded as discharged on the unchanged tree and was not generated from the current source (function, call site or loop no longer matches its contract)",
						"no_failing_input_found": true})
					vioLines = append(vioLines, fmt.Sprintf("VIOLATION property=%s replay=%s obligation=%s no-failing-input-found", prop, path, n))
					violations++
				}
			}
		}
	}
	knownObs := map[*Obligation]bool{}
	discharged, covers, coverOK := 0, 0, 0
	solverTime := 0.0
	bySolver := map[string]int{}
	var samples []map[string]interface{}
	for _, o := range all {
		solverTime += o.Result.Seconds
		if o.Expect == "sat" {
			covers++
			if o.ok() {
				coverOK++
			}
		}
		if o.ok() {
			if o.Expect == "unsat" {
				discharged++
				bySolver[o.Result.Solver]++
			}
			if len(samples) < 400 {
				samples = append(samples, map[string]interface{}{"obligation": o.Fn + "/" + o.Name, "kind": o.Kind, "at": o.Pos,
					"solver": o.Result.Solver, "status": o.Result.Status, "seconds": round3(o.Result.Seconds), "text": o.Desc})
			}
			continue
		}
		full := o.Fn + "/" + o.Name
		// known finding?
		isKnown := false
		for _, k := range known {
			if k.Status == "known" && normOb(k.Obligation) == normOb(full) {
				isKnown = true
				line := fmt.Sprintf("KNOWN-FINDING: property=%s %s %s", prop, full, k.What)
				knownSeen = append(knownSeen, line)
			}
		}
		if isKnown {
			knownObs[o] = true
			continue
		}
		violations++
		status := o.Result.Status
		if o.Expect == "sat" {
			status = "vacuous: assumptions at this point are contradictory"
		}
		rp := map[string]interface{}{"property": prop, "obligation": full, "function": o.Fn, "kind": o.Kind, "at": o.Pos,
			"clause": o.Desc, "solver": o.Result.Solver, "solver_status": status, "solver_output": trunc(o.Result.Output, 6000),
			"expected_on_unchanged_tree": "discharged (unsat)"}
		replayed := false
		if o.Result.Status == "sat" && o.Expect == "unsat" {
			rep := e.replay(fnByOb[o], o, outDir)
			if rep != nil {
				rp["replay"] = rep
				if rep["outcome"] == "reproduced" {
					replayed = true
				}
			}
		}
		rp["no_failing_input_found"] = !replayed
		path := filepath.Join(outDir, sanitizeRe.ReplaceAllString(full, "_")+".replay.json")
		jsonWrite(path, rp)
		line := fmt.Sprintf("VIOLATION property=%s replay=%s obligation=%s", prop, path, full)
		if !replayed {
			line += " no-failing-input-found"
		}
		vioLines = append(vioLines, line)
	}
	nProof := 0
	for _, o := range all {
		if o.Expect == "unsat" && !knownObs[o] {
			nProof++
		}
	}
	for n := range e.trustedAssumptions(rs) {
		assumptions[n] = true
	}
	var notCovered []string
	for _, r := range rs {
		if ct := e.cs.Funcs[r.Key]; ct != nil {
			for _, n := range ct.Notes {
				notCovered = append(notCovered, r.Display+": "+n)
			}
		}
	}
	sort.Strings(knownSeen)
	ev := Evidence{PropertyID: prop, Tier: tier, Seed: seedFromEnv(), Level: "proof", WallS: round3(time.Since(t0).Seconds()), Violations: violations,
		Assumptions: sortedKeys(assumptions),
		Coverage: map[string]interface{}{
			"obligations": nProof, "discharged": discharged,
			"checker_cmd": fmt.Sprintf("gvc check -prop %s -tier %s (weakest-precondition obligations over go/ssa of /repo's working tree with -tags=verif; portfolio z3 5.1.0, cvc5 1.0, z3 4.8.12)", prop, tier),
			"trusted_base": append([]string{"gvc (SSA to SMT translation, heap model, contract parser)", "golang.org/x/tools/go/ssa v0.29.0", "z3 5.1.0 / cvc5 1.0 / z3 4.8.12"}, prefixAll("trusted contract: ", trusted)...),
			"functions_under_contract": fns, "trusted_contracts": trusted,
			"discharged_by_solver": bySolver, "solver_time_s": round3(solverTime), "load_time_s": round3(loadS),
			"cover_checks": covers, "cover_checks_passed": coverOK,
			"vacuity": "requires of every function, every loop invariant (with path condition) and every return are checked satisfiable (cover obligations); a cover answered unsat fails the run",
			"samples": samples, "not_covered": notCovered, "known_findings_seen": knownSeen,
			"obligations_failing_as_known_findings": len(knownObs),
			"integer_model": "fixed-width Go integers are SMT bit-vectors of their width; no mathematical-integer abstraction",
			"bounded": []string{},
		}}
	if nProof == 0 {
		ev.Coverage["obligations"] = 0
	}
	if e.repo == "/repo" {
		// (self-test runs against scratch copies must not overwrite the evidence of the real tree)
		jsonWrite(filepath.Join(e.verifDir, "evidence", prop+".json"), ev)
	}
	for _, l := range knownSeen {
		fmt.Println(l)
	}
	for _, l := range vioLines {
		fmt.Println(l)
	}
	fmt.Printf("property %s: %d/%d obligations discharged, %d cover checks, %d violations, load %.1fs, total %.1fs\n",
		prop, discharged, nProof, covers, violations, loadS, time.Since(t0).Seconds())
	if violations > 0 {
		return 1
	}
	if nProof == 0 {
		fmt.Println("gvc: no obligations were generated (vacuous run)")
		return 2
	}
	return 0
}

// normOb strips the per-return and per-conjunct suffixes (@k, #k) from an obligation name, so
// that a known finding is identified by function and clause, not by how many return statements
// precede the failing one.
func normOb(s string) string {
	for {
		i := strings.LastIndexAny(s, "@#")
		if i < 0 || i == len(s)-1 {
			return s
		}
		digits := true
		for _, c := range s[i+1:] {
			if c < '0' || c > '9' {
				digits = false
			}
		}
		if !digits || i < strings.LastIndex(s, "/") {
			return s
		}
		s = s[:i]
	}
}

func seedFromEnv() int {
	var s int
	fmt.Sscanf(os.Getenv("VERIF_SEED"), "%d", &s)
	return s
}

func round3(f float64) float64 { return float64(int(f*1000+0.5)) / 1000 }

func prefixAll(p string, xs []string) []string {
	var out []string
	for _, x := range xs {
		out = append(out, p+x)
	}
	return out
}

// trustedAssumptions lists every trusted contract and axiom reachable from this run.
func (e *Engine) trustedAssumptions(rs []*FnResult) map[string]bool {
	out := map[string]bool{}
	for _, k := range e.cs.Order {
		if ct := e.cs.Funcs[k]; ct.Trusted {
			out["trusted (unproved) contract: "+shortKey(k)] = true
		}
	}
	for _, ax := range e.cs.Axioms {
		out["axiom (unproved): "+ax.Name] = true
	}
	out["each function is verified as if it ran alone (no interleavings); locks are ghost state"] = true
	out["slices have at most 2^46 elements; make() of more than 2^47 elements is an obligation failure"] = true
	out["termination is proved only where a decreases clause is given"] = true
	return out
}

// writeExpected records the obligation names of a property (run on the unchanged tree).
func (e *Engine) writeExpected(prop string, rs []*FnResult) error {
	var names []string
	for _, r := range rs {
		for _, o := range r.Obs {
			if contractDerived(o.Kind) && o.ok() {
				names = append(names, o.Fn+"/"+o.Name)
			}
		}
	}
	sort.Strings(names)
	// report what disappears relative to the previous record (regenerating must not hide a loss)
	if b, err := os.ReadFile(filepath.Join(e.verifDir, "expected", prop+".json")); err == nil {
		var old expectedFile
		if json.Unmarshal(b, &old) == nil {
			have := map[string]bool{}
			for _, n := range names {
				have[n] = true
			}
			for _, n := range old.Obligations {
				if !have[n] {
					fmt.Printf("expected/%s.json: obligation no longer generated or no longer discharged: %s\n", prop, n)
				}
			}
		}
	}
	return jsonWrite(filepath.Join(e.verifDir, "expected", prop+".json"), expectedFile{prop, names})
}
