package main

// Rename tolerance. A contract names parameters, receivers and local variables of the function
// it is attached to. When the unchanged tree is recorded (gvc expect), the declared identifiers
// of every function under contract are recorded too, in source order. If a later tree declares
// the same sequence of identifiers except that some are spelled differently (a pure rename,
// possibly with a few declarations added or removed elsewhere), a name the contract uses and
// the function no longer has is resolved to the identifier that took its place.

import (
	"encoding/json"
	"go/ast"
	"go/token"
	"os"
	"path/filepath"

	"golang.org/x/tools/go/ssa"
)

// declNames lists the identifiers a function declares (receiver, parameters, named results,
// :=, var, range and type-switch bindings), in source order, nested function literals excluded.
func declNames(fn *ssa.Function) []string {
	syn := fn.Syntax()
	if syn == nil {
		return nil
	}
	var out []string
	add := func(id *ast.Ident) {
		if id != nil && id.Name != "_" {
			out = append(out, id.Name)
		}
	}
	fields := func(fl *ast.FieldList) {
		if fl == nil {
			return
		}
		for _, f := range fl.List {
			for _, n := range f.Names {
				add(n)
			}
		}
	}
	var body *ast.BlockStmt
	switch x := syn.(type) {
	case *ast.FuncDecl:
		fields(x.Recv)
		fields(x.Type.Params)
		fields(x.Type.Results)
		body = x.Body
	case *ast.FuncLit:
		fields(x.Type.Params)
		fields(x.Type.Results)
		body = x.Body
	}
	if body == nil {
		return out
	}
	ast.Inspect(body, func(n ast.Node) bool {
		switch x := n.(type) {
		case *ast.FuncLit:
			return false
		case *ast.AssignStmt:
			if x.Tok == token.DEFINE {
				for _, l := range x.Lhs {
					if id, ok := l.(*ast.Ident); ok {
						add(id)
					}
				}
			}
		case *ast.ValueSpec:
			for _, id := range x.Names {
				add(id)
			}
		case *ast.RangeStmt:
			if x.Tok == token.DEFINE {
				if id, ok := x.Key.(*ast.Ident); ok {
					add(id)
				}
				if id, ok := x.Value.(*ast.Ident); ok {
					add(id)
				}
			}
		case *ast.TypeSwitchStmt:
			if as, ok := x.Assign.(*ast.AssignStmt); ok && as.Tok == token.DEFINE {
				for _, l := range as.Lhs {
					if id, ok := l.(*ast.Ident); ok {
						add(id)
					}
				}
			}
		}
		return true
	})
	return out
}

func (e *Engine) localsFile() string { return filepath.Join(e.verifDir, "expected", "locals.json") }

func (e *Engine) loadLocals() map[string][]string {
	if e.recordedLocals != nil {
		return e.recordedLocals
	}
	e.recordedLocals = map[string][]string{}
	if b, err := os.ReadFile(e.localsFile()); err == nil {
		json.Unmarshal(b, &e.recordedLocals)
	}
	return e.recordedLocals
}

// recordLocals stores the declared identifiers of the given functions (unchanged tree only).
func (e *Engine) recordLocals(keys []string) error {
	m := e.loadLocals()
	for _, k := range keys {
		if fn := e.fnByKey[k]; fn != nil {
			m[k] = declNames(fn)
			for p := fn.Parent(); p != nil; p = p.Parent() {
				m[e.keyOf(p)] = declNames(p)
			}
		}
	}
	return jsonWrite(e.localsFile(), m)
}

// aliasFor maps identifiers the recorded version of fn declared, and the current one does not,
// to the identifiers now standing in their place (nil when there is nothing to map or the two
// declaration sequences cannot be aligned unambiguously). Closures inherit their parents' map.
func (e *Engine) aliasFor(fn *ssa.Function) map[string]string {
	if fn == nil {
		return nil
	}
	if e.aliasCache == nil {
		e.aliasCache = map[*ssa.Function]map[string]string{}
	}
	if a, ok := e.aliasCache[fn]; ok {
		return a
	}
	out := map[string]string{}
	if p := fn.Parent(); p != nil {
		for k, v := range e.aliasFor(p) {
			out[k] = v
		}
	}
	old, ok := e.loadLocals()[e.keyOf(fn)]
	if ok {
		cur := declNames(fn)
		curSet := map[string]bool{}
		for _, n := range cur {
			curSet[n] = true
		}
		for o, n := range alignRenames(old, cur) {
			if !curSet[o] {
				out[o] = n
			}
		}
	}
	if len(out) == 0 {
		out = nil
	}
	e.aliasCache[fn] = out
	return out
}

// alignRenames aligns two identifier sequences on their longest common subsequence; inside a
// gap, the unmatched old and new names are paired in order when there are equally many of them.
// The result must be a function (an old name always replaced by the same new name).
func alignRenames(old, cur []string) map[string]string {
	n, m := len(old), len(cur)
	if n == 0 || m == 0 || n > 400 || m > 400 {
		return nil
	}
	lcs := make([][]int, n+1)
	for i := range lcs {
		lcs[i] = make([]int, m+1)
	}
	for i := n - 1; i >= 0; i-- {
		for j := m - 1; j >= 0; j-- {
			if old[i] == cur[j] {
				lcs[i][j] = lcs[i+1][j+1] + 1
			} else if lcs[i+1][j] >= lcs[i][j+1] {
				lcs[i][j] = lcs[i+1][j]
			} else {
				lcs[i][j] = lcs[i][j+1]
			}
		}
	}
	out := map[string]string{}
	bad := map[string]bool{}
	var go1, gc []string
	flush := func() {
		if len(go1) == len(gc) {
			for k := range go1 {
				if prev, ok := out[go1[k]]; ok && prev != gc[k] {
					bad[go1[k]] = true
				}
				out[go1[k]] = gc[k]
			}
		}
		go1, gc = nil, nil
	}
	i, j := 0, 0
	for i < n && j < m {
		switch {
		case old[i] == cur[j]:
			flush()
			i++
			j++
		case lcs[i+1][j] >= lcs[i][j+1]:
			go1 = append(go1, old[i])
			i++
		default:
			gc = append(gc, cur[j])
			j++
		}
	}
	for ; i < n; i++ {
		go1 = append(go1, old[i])
	}
	for ; j < m; j++ {
		gc = append(gc, cur[j])
	}
	flush()
	for b := range bad {
		delete(out, b)
	}
	return out
}
