package main

// Calls: builtins, native models, contracts (modular), inlining, havoc; defers; user asserts.

import (
	"fmt"
	"sort"
	"go/token"
	"go/types"
	"strings"

	"golang.org/x/tools/go/ssa"
)

func (br *bodyRun) call(st *State, x ssa.CallInstruction, b *ssa.BasicBlock, idx int) Val {
	fc := br.fc
	c := x.Common()
	var rt types.Type
	if v := x.Value(); v != nil {
		rt = v.Type()
	} else {
		rt = c.Signature().Results()
	}
	if c.IsInvoke() {
		return br.invoke(st, c, rt, x)
	}
	var args []Val
	for _, a := range c.Args {
		args = append(args, fc.val(a))
	}
	switch f := c.Value.(type) {
	case *ssa.Builtin:
		return br.builtin(st, f, c, args, rt, x)
	case *ssa.Function:
		return br.callStatic(st, f, nil, c.Args, args, rt, x)
	case *ssa.MakeClosure:
		fv := fc.val(f).(FuncV)
		return br.callStatic(st, fv.Fn.(*ssa.Function), fv.Bindings, c.Args, args, rt, x)
	}
	if fv, ok := fc.vals[c.Value].(FuncV); ok {
		if fn, ok := fv.Fn.(*ssa.Function); ok {
			return br.callStatic(st, fn, fv.Bindings, c.Args, args, rt, x)
		}
	}
	// dynamic call through a function value whose possible targets are known syntactically
	// (a closure returned by a call, a function-typed field, ...): the union of their frames
	if fns := resolveFuncValue(c.Value, 0); len(fns) > 0 {
		merged := &inferredFrame{keys: map[string]string{}}
		for _, g := range fns {
			gf := fc.inferFrame(g)
			if gf.all || gf.paramCalls {
				merged.all = true
			}
			for k, s := range gf.keys {
				merged.keys[k] = s
			}
			merged.locks = merged.locks || gf.locks
		}
		if !merged.all {
			fc.note("dynamic call at %s: targets resolved syntactically (%d), frame inferred (%d heap keys)", fc.posStr(x.Pos()), len(fns), len(merged.keys))
			na := fc.smt.declare("alloc", "Int")
			fc.assume(st, app(">=", na, st.alloc))
			st.alloc = na
			br.havocInferred(st, merged.keys, fns[0], args, c.Args)
			br.havocInteriorArgs(st, args)
			if merged.locks {
				fc.havocHeld(st)
			}
			return fc.freshTyped(st, rt, "dyn")
		}
	}
	// dynamic call through a function value
	fc.note("dynamic call at %s: everything reachable havoc'd", fc.posStr(x.Pos()))
	if !fc.light {
		unsup("dynamic call through function value at %s", fc.posStr(x.Pos()))
	}
	fc.havocAll(st)
	return fc.freshTyped(st, rt, "dyn")
}

func (br *bodyRun) invoke(st *State, c *ssa.CallCommon, rt types.Type, x ssa.CallInstruction) Val {
	fc := br.fc
	recvT := c.Value.Type()
	name := c.Method.Name()
	key := "::(" + typeNameFull(recvT) + ")." + name
	if ct := fc.eng.cs.Funcs[key]; ct != nil {
		var args []Val
		var argT []types.Type
		args = append(args, fc.val(c.Value))
		argT = append(argT, recvT)
		for _, a := range c.Args {
			args = append(args, fc.val(a))
			argT = append(argT, a.Type())
		}
		sig := c.Method.Type().(*types.Signature)
		names := []string{"recv"}
		for i := 0; i < sig.Params().Len(); i++ {
			names = append(names, sig.Params().At(i).Name())
		}
		return br.applyContract(st, ct, key[2:], names, argT, args, sig, rt, x, c.Method.Pkg())
	}
	if isErrorMethod(recvT, name) {
		// err.Error(): pure, fresh string
		return fc.freshTyped(st, rt, "errstr")
	}
	// no contract: the union of the inferred frames of the module's implementations
	if impls := fc.eng.implementations(recvT, c.Method); impls != nil {
		keys := map[string]string{}
		all, locks, why := false, false, ""
		for _, m := range impls {
			if isForeign(m) {
				continue
			}
			fr := fc.inferFrame(m)
			if fr.all {
				all, why = true, fr.why
				break
			}
			for k, s := range fr.keys {
				keys[k] = s
			}
			locks = locks || fr.locks
		}
		if !all {
			fc.note("interface call %s.%s: no contract; result unconstrained, frame = union of the inferred frames of its implementations", typeNameFull(recvT), name)
			na := fc.smt.declare("alloc", "Int")
			fc.assume(st, app(">=", na, st.alloc))
			st.alloc = na
			var iargs []Val
			for _, a := range c.Args {
				iargs = append(iargs, fc.val(a))
			}
			br.havocInferred(st, keys, nil, iargs, c.Args)
			if locks {
				fc.havocHeld(st)
			}
			return fc.freshTyped(st, rt, "inv")
		}
		_ = why
	}
	if !fc.light {
		unsup("interface method call %s.%s without a contract at %s", recvT, name, fc.posStr(x.Pos()))
	}
	fc.note("interface call %s.%s at %s: everything reachable havoc'd", typeNameFull(recvT), name, fc.posStr(x.Pos()))
	fc.havocAll(st)
	return fc.freshTyped(st, rt, "inv")
}

func isErrorMethod(t types.Type, name string) bool {
	return name == "Error" && types.Identical(t.Underlying(), types.Universe.Lookup("error").Type().Underlying())
}

func typeNameFull(t types.Type) string {
	return types.TypeString(t, func(p *types.Package) string { return p.Path() })
}

func (br *bodyRun) callStatic(st *State, fn *ssa.Function, bindings []Val, argVals []ssa.Value, args []Val, rt types.Type, x ssa.CallInstruction) Val {
	fc := br.fc
	full := fn.String()
	if fn.Origin() != nil {
		full = fn.Origin().String()
	}
	// native models first
	if nat, ok := natives[full]; ok {
		return nat(br, st, fn, argVals, args, rt, x)
	}
	key, ct := fc.eng.contractFor(fn)
	if ct != nil && !ct.Inline {
		var argT []types.Type
		var names []string
		for i, p := range fn.Params {
			names = append(names, p.Name())
			_ = i
			argT = append(argT, p.Type())
		}
		if len(fn.Params) == 0 && len(args) > 0 {
			// function without a body: take names from the signature
			sig := fn.Signature
			if sig.Recv() != nil {
				names = append(names, sig.Recv().Name())
				argT = append(argT, sig.Recv().Type())
			}
			for i := 0; i < sig.Params().Len(); i++ {
				names = append(names, sig.Params().At(i).Name())
				argT = append(argT, sig.Params().At(i).Type())
			}
		}
		var pkg *types.Package
		if fn.Pkg != nil {
			pkg = fn.Pkg.Pkg
		}
		// a closure's contract may name the variables it captures: they are read through the
		// bindings of this closure value, in whichever state a clause is evaluated
		br.callCells = nil
		for i, fv := range fn.FreeVars {
			if i < len(bindings) {
				if pv, ok := bindings[i].(PtrV); ok {
					if pt, ok := fv.Type().(*types.Pointer); ok {
						if br.callCells == nil {
							br.callCells = map[string]cellRef{}
						}
						br.callCells[fv.Name()] = cellRef{pv, pt.Elem()}
					}
				}
			}
		}
		return br.applyContract(st, ct, key, names, argT, args, fn.Signature, rt, x, pkg)
	}
	if (ct != nil && ct.Inline) || fc.eng.autoInline(fn) {
		return br.inlineCall(st, fn, bindings, args, rt, ct, x)
	}
	if fc.eng.isPureExternal(full) {
		fc.note("call to %s treated as effect-free, result unconstrained", full)
		return fc.freshTyped(st, rt, "ext")
	}
	fr := fc.inferFrame(fn)
	if !fr.all && fr.paramCalls {
		// the callee calls function values it is given: add what those may do
		merged := &inferredFrame{keys: map[string]string{}, locks: fr.locks}
		for k, s := range fr.keys {
			merged.keys[k] = s
		}
		for i, a := range args {
			if fv, ok := a.(FuncV); ok {
				if g, ok := fv.Fn.(*ssa.Function); ok {
					gf := fc.inferFrame(g)
					if gf.all {
						merged.all, merged.why = true, gf.why
					}
					for k, s := range gf.keys {
						merged.keys[k] = s
					}
					merged.locks = merged.locks || gf.locks
					continue
				}
			}
			if i < len(argVals) {
				if _, isSig := argVals[i].Type().Underlying().(*types.Signature); isSig {
					if _, ok := a.(FuncV); !ok {
						merged.all, merged.why = true, "unknown function value passed to "+full
					}
				}
			}
		}
		fr = merged
	}
	if !fr.all {
		fc.note("call to %s: no contract; result unconstrained, frame inferred syntactically (%d heap keys)", full, len(fr.keys))
		na := fc.smt.declare("alloc", "Int")
		fc.assume(st, app(">=", na, st.alloc))
		st.alloc = na
		br.havocInferred(st, fr.keys, fn, args, argVals)
		br.havocInteriorArgs(st, args)
		if fr.locks {
			fc.havocHeld(st)
		}
		return fc.freshTyped(st, rt, "call")
	}
	if !fc.light {
		unsup("call to %s without contract at %s (inferred frame: everything, %s)", full, fc.posStr(x.Pos()), fr.why)
	}
	fc.note("call to %s at %s: no contract, heap havoc'd (%s)", full, fc.posStr(x.Pos()), fr.why)
	fc.havocAll(st)
	return fc.freshTyped(st, rt, "call")
}

// havocInteriorArgs: a pointer to a by-value struct field (&x.f) handed to a callee whose frame
// is type based. The callee sees an object of the field's type and its writes are recorded
// under that type's heap keys; in the caller the same memory is named by the enclosing struct.
// Whatever the callee may have written there is therefore forgotten on the caller's side.
func (br *bodyRun) havocInteriorArgs(st *State, args []Val) {
	fc := br.fc
	for _, a := range args {
		p, ok := a.(PtrV)
		if !ok || p.Kind != PObj || len(p.Path) == 0 {
			continue
		}
		func() {
			defer func() { recover() }()
			_, t := pathNames(p.Root, p.Path)
			if _, isStruct := t.Underlying().(*types.Struct); !isStruct {
				return
			}
			if fc.isStablePath(p) {
				return
			}
			v := fc.fresh(t, "interior")
			fc.store(st, p, t, v)
			fc.assume(st, fc.typeInv(st, t, v))
			fc.note("a pointer to a by-value struct field is passed to a callee with a type-based frame: the field is havoc'd in the caller")
		}()
	}
}

// havocInferred havocs the keys of an inferred frame. The cells of the calling function's own
// source variables keep their value when the callee cannot have their address (it is not one
// of this function's closures and receives no function value and no pointer to a cell).
func (br *bodyRun) havocInferred(st *State, keys map[string]string, callee *ssa.Function, args []Val, argVals []ssa.Value) {
	fc := br.fc
	defer fc.keepLocals(st)()
	keepCells := true
	if callee != nil && callee.Parent() != nil {
		keepCells = false
	}
	for i, a := range args {
		if _, isF := a.(FuncV); isF {
			keepCells = false
		}
		if p, ok := a.(PtrV); ok && p.Kind == PObj && i < len(argVals) {
			if _, isStruct := p.Root.Underlying().(*types.Struct); !isStruct {
				keepCells = false
			}
		}
	}
	var ks []string
	for k := range keys {
		ks = append(ks, k)
	}
	sort.Strings(ks)
	for _, k := range ks {
		fc.touched[k] = true
		if keepCells && strings.HasPrefix(k, "cell|") && !fc.isStableKey(k) {
			old := fc.heapSym(st, k, keys[k])
			fc.havocKey(st, k, keys[k])
			h := st.heap[k]
			changed := false
			for _, b := range br.fn.Blocks {
				for _, ins := range b.Instrs {
					a, ok := ins.(*ssa.Alloc)
					if !ok || (a.Comment == "" && a.Heap) {
						continue
					}
					p, ok := fc.vals[a].(PtrV)
					if !ok || p.Kind != PObj || len(p.Path) != 0 {
						continue
					}
					if _, isStruct := p.Root.Underlying().(*types.Struct); isStruct {
						continue
					}
					if !strings.HasPrefix(k, "cell|"+typeName(p.Root)) {
						continue
					}
					rest := k[len("cell|"+typeName(p.Root)):]
					if rest != "" && rest[0] != '#' && rest[0] != '.' {
						continue
					}
					h = app("store", h, p.Ref, app("select", old, p.Ref))
					changed = true
				}
			}
			if changed {
				st.heap[k] = fc.smt.defineAlways("H_"+k, keys[k], h)
			}
			continue
		}
		fc.havocKey(st, k, keys[k])
	}
}

// callModifies: which heap keys a call inside a loop may write (for loop havoc).
func (fc *FnCtx) callModifies(x ssa.CallInstruction) ([]keySort, bool) {
	c := x.Common()
	if c.IsInvoke() {
		key := "::(" + typeNameFull(c.Value.Type()) + ")." + c.Method.Name()
		if ct := fc.eng.cs.Funcs[key]; ct != nil {
			return fc.contractKeys(ct, nil, c.Method.Type().(*types.Signature), c.Value.Type())
		}
		if isErrorMethod(c.Value.Type(), c.Method.Name()) {
			return nil, false
		}
		return nil, true
	}
	switch f := c.Value.(type) {
	case *ssa.Builtin:
		switch f.Name() {
		case "append", "copy":
			var et types.Type
			if s, ok := c.Args[0].Type().Underlying().(*types.Slice); ok {
				et = s.Elem()
			} else {
				return nil, true
			}
			var out []keySort
			for _, l := range leavesOf(et) {
				out = append(out, mkKS("elem|" + typeName(et) + l.Suffix, arrSort(true, l.Sort)))
			}
			return out, false
		case "delete":
			mt := c.Args[0].Type().Underlying().(*types.Map)
			return fc.mapKeys(mt), false
		}
		return nil, false
	case *ssa.Function:
		return fc.fnModifies(f, 0)
	case *ssa.MakeClosure:
		return fc.fnModifies(f.Fn.(*ssa.Function), 0)
	}
	return nil, true
}

func (fc *FnCtx) fnModifies(fn *ssa.Function, depth int) ([]keySort, bool) {
	full := fn.String()
	if fn.Origin() != nil {
		full = fn.Origin().String()
	}
	if m, ok := nativeModifies[full]; ok {
		return m(fc), false
	}
	if _, ok := natives[full]; ok {
		return nil, false
	}
	_, ct := fc.eng.contractFor(fn)
	if ct != nil && !ct.Inline {
		return fc.contractKeys(ct, fn, fn.Signature, nil)
	}
	if (ct != nil && ct.Inline) || (fn.Parent() != nil && len(fn.Blocks) > 0) {
		if depth > 4 {
			return nil, true
		}
		var out []keySort
		br := &bodyRun{fc: fc, fn: fn}
		li := &loopInfo{blocks: map[*ssa.BasicBlock]bool{}}
		for _, b := range fn.Blocks {
			li.blocks[b] = true
		}
		ks, all := br.modifiedKeys(li)
		if all {
			return nil, true
		}
		out = append(out, ks...)
		return out, false
	}
	if fc.eng.isPureExternal(full) {
		return nil, false
	}
	fr := fc.inferFrame(fn)
	if fr.all {
		return nil, true
	}
	var out []keySort
	for k, s := range fr.keys {
		out = append(out, mkKS(k, s))
	}
	if fr.locks {
		for k, s := range fc.keySort {
			if strings.HasPrefix(k, "ghost|held|") {
				out = append(out, mkKS(k, s))
			}
		}
	}
	return out, false
}

// contractKeys evaluates the assigns clauses on dummy arguments to learn the heap keys.
func (fc *FnCtx) contractKeys(ct *Contract, fn *ssa.Function, sig *types.Signature, recvT types.Type) (out []keySort, all bool) {
	defer func() {
		if r := recover(); r != nil {
			out, all = nil, true
		}
	}()
	if ct.usesInferredFrame() {
		// the frame is the syntactic frame of the body
		if fn == nil {
			return nil, true
		}
		fr := fc.inferFrame(fn)
		if fr.all {
			return nil, true
		}
		for k, s := range fr.keys {
			out = append(out, mkKS(k, s))
		}
		if fr.locks {
			for k, s := range fc.keySort {
				if strings.HasPrefix(k, "ghost|held|") {
					out = append(out, mkKS(k, s))
				}
			}
		}
		return out, false
	}
	if len(ct.Assigns) == 0 {
		return nil, false
	}
	st := &State{guard: "true", heap: map[string]string{}, alloc: "0", base: -1}
	env := &SpecEnv{fc: fc, st: st, old: st, vars: map[string]TV{}}
	if fn != nil && fn.Pkg != nil {
		env.pkg = fn.Pkg.Pkg
	}
	if fn != nil {
		for _, p := range fn.Params {
			env.vars[p.Name()] = TV{fc.fresh(p.Type(), "dummy"), p.Type()}
		}
	} else {
		if recvT != nil {
			env.vars["recv"] = TV{fc.fresh(recvT, "dummy"), recvT}
		}
		for i := 0; i < sig.Params().Len(); i++ {
			p := sig.Params().At(i)
			env.vars[p.Name()] = TV{fc.fresh(p.Type(), "dummy"), p.Type()}
		}
	}
	for _, a := range ct.Assigns {
		if a.Src == "everything" {
			return nil, true
		}
		for _, t := range fc.assignTargets(env, a) {
			out = append(out, t.keys...)
		}
	}
	return out, false
}

type assignTarget struct {
	keys  []keySort
	ptr   PtrV   // for field / cell targets
	isRng bool   // element range target
	s     SliceV // range: slice
	lo, hi string // absolute region indices [lo,hi)
	et    types.Type
	t     types.Type
	ghost string
	scalarGhost bool
}

// scalar ghost variables and their sorts
var ghostScalarSorts = map[string]string{"now": "(_ BitVec 64)"}

// assignTargets interprets one assigns clause.
func (fc *FnCtx) assignTargets(env *SpecEnv, a *Clause) []assignTarget {
	e := a.E
	if strings.HasPrefix(a.Src, "ghost ") {
		// scalar ghost variable, e.g. "ghost now"
		name := strings.TrimSpace(strings.TrimPrefix(a.Src, "ghost "))
		return []assignTarget{{ghost: "ghost|" + name, scalarGhost: true, keys: []keySort{mkKS("ghost|" + name, ghostScalarSorts[name])}}}
	}
	// s[lo:hi] or s[:] : elements of a slice
	if e.K == "slice" {
		x := env.eval(e.X[0])
		s, ok := x.V.(SliceV)
		if !ok {
			sfail("assigns: %s is not a slice", e.X[0])
		}
		et := elemType(x.T)
		lo := bvlit(0, 64)
		if e.X[1] != nil {
			lo = toBV64(coerce(env.eval(e.X[1]), types.Typ[types.Int]))
		}
		hi := s.Len
		if e.X[2] != nil {
			hi = toBV64(coerce(env.eval(e.X[2]), types.Typ[types.Int]))
		}
		t := assignTarget{isRng: true, s: s, lo: app("bvadd", s.Off, lo), hi: app("bvadd", s.Off, hi), et: et}
		for _, l := range leavesOf(et) {
			t.keys = append(t.keys, mkKS("elem|" + typeName(et) + l.Suffix, arrSort(true, l.Sort)))
		}
		return []assignTarget{t}
	}
	if e.K == "call" && e.X[0].K == "id" && e.X[0].Name == "held" {
		p, _ := env.evalLoc(e.X[1])
		return []assignTarget{{ghost: fc.heldKey(p), ptr: p, keys: []keySort{mkKS(fc.heldKey(p), "(Array Int Bool)")}}}
	}
	if e.K == "call" && e.X[0].K == "id" && e.X[0].Name == "mapof" {
		x := env.eval(e.X[1])
		mt := x.T.Underlying().(*types.Map)
		return []assignTarget{{keys: fc.mapKeys(mt), ptr: PtrV{Kind: PObj, Ref: x.V.(Scalar).T, Root: x.T}, t: x.T}}
	}
	p, t := env.evalLoc(e)
	prefix, elem := keyBase(p)
	tg := assignTarget{ptr: p, t: t}
	for _, l := range leavesOf(t) {
		tg.keys = append(tg.keys, mkKS(prefix + l.Suffix, arrSort(elem, l.Sort)))
	}
	return []assignTarget{tg}
}

// applyContract: assert requires, havoc assigns, assume ensures.
func (br *bodyRun) applyContract(st *State, ct *Contract, key string, names []string, argT []types.Type, args []Val,
	sig *types.Signature, rt types.Type, x ssa.CallInstruction, pkg *types.Package) Val {
	fc := br.fc
	short := shortKey(key)
	fc.callOrd[short]++
	ord := fc.callOrd[short]
	env := &SpecEnv{fc: fc, st: st, old: st, pkg: pkg, vars: map[string]TV{}, alias: fc.eng.aliasFor(fc.eng.fnByKey[fc.eng.fullKey(key)]), cells: br.callCells}
	br.callCells = nil
	if pkg == nil {
		env.pkg = br.fn.Pkg.Pkg
	}
	for i := range args {
		if i < len(names) && names[i] != "" && names[i] != "_" {
			env.vars[names[i]] = TV{args[i], argT[i]}
		}
		env.vars[fmt.Sprintf("arg%d", i)] = TV{args[i], argT[i]}
	}
	// receiver must not be nil
	if sig.Recv() != nil && len(args) > 0 {
		if p, ok := args[0].(PtrV); ok && !fc.knownNonNil[p.Ref] {
			fc.knownNonNil[p.Ref] = true
			fc.oblige(st, not(eq(p.Ref, "0")), fmt.Sprintf("%spre-of:%s#%d:receiver-non-nil", br.prefix, short, ord), "pre-of", x.Pos(), "receiver of "+short+" is not nil")
		}
	}
	for i, c := range ct.Requires {
		if fc.light && !strings.HasPrefix(c.Name, "effect") {
			// light mode checks only effect preconditions (requires[effect-...])
			continue
		}
		fc.prove(env, c.E, st, fmt.Sprintf("%spre-of:%s#%d:%s", br.prefix, short, ord, clauseName(c, i)), "pre-of", x.Pos(), c.Src)
	}
	// domain: the callee's postconditions are only known for inputs inside its verified domain
	dom := "true"
	for _, c := range ct.Domain {
		dom = and(dom, fc.guarded(func() string { return fc.hyp(env, c.E) }, c))
	}
	if dom != "true" {
		dom = fc.smt.defineAlways("dom", "Bool", dom)
	}
	pre := st.clone()
	// the callee may allocate
	{
		na := fc.smt.declare("alloc", "Int")
		fc.assume(st, app(">=", na, st.alloc))
		st.alloc = na
	}
	// havoc the frame
	if ct.Light && ct.HasAssigns && !ct.AssignsInferred {
		fc.note("frame of light-mode function %s is assumed as declared (not checked)", short)
	}
	if ct.usesInferredFrame() {
		// (a light-mode contract without assigns clause says nothing about the frame: the
		// syntactic frame of the body is used, or everything when that cannot be bounded)
		if fn := fc.eng.fnByKey[fc.eng.fullKey(key)]; fn != nil {
			fr := fc.inferFrame(fn)
			if fr.all {
				fc.havocAll(st)
			} else {
				fc.note("frame of %s inferred syntactically from its body (%d heap keys)", short, len(fr.keys))
				var ks []string
				for k := range fr.keys {
					ks = append(ks, k)
				}
				sort.Strings(ks)
				_ = ks
				var argVals []ssa.Value
				if x != nil {
					argVals = x.Common().Args
				}
				// (same treatment as a callee without contract: the caller's own variable cells
				// survive when the callee cannot have their address)
				br.havocInferred(st, fr.keys, fn, args, argVals)
				br.havocInteriorArgs(st, args)
				if fr.locks {
					fc.havocHeld(st)
				}
			}
		} else {
			fc.havocAll(st)
		}
	}
	for _, a := range ct.Assigns {
		if a.Src == "everything" {
			fc.havocAll(st)
			continue
		}
		for _, tg := range fc.guardedTargets(env.inState(pre), a) {
			fc.havocTarget(st, pre, tg)
		}
	}
	// result
	var res Val
	if rt != nil {
		if tup, ok := rt.(*types.Tuple); ok && tup.Len() == 0 {
			res = nil
		} else {
			res = fc.fresh(rt, "r_"+sanitizeRe.ReplaceAllString(short, "_"))
			fc.assume(st, fc.typeInv(st, rt, res))
		}
	}
	penv := &SpecEnv{fc: fc, st: st, old: pre, pkg: env.pkg, vars: map[string]TV{}, alias: env.alias, cells: env.cells}
	for k, v := range env.vars {
		penv.vars[k] = v
	}
	bindResults(penv, sig, res)
	for _, c := range ct.Ensures {
		fc.assume(st, implies(dom, fc.guarded(func() string { return fc.hyp(penv, c.E) }, c)))
	}
	return res
}

func (fc *FnCtx) guardedTargets(env *SpecEnv, a *Clause) (out []assignTarget) {
	defer func() {
		if r := recover(); r != nil {
			if se, ok := r.(specErr); ok {
				panic(specErr(fmt.Sprintf("%s:%d: assigns %s: %s", a.File, a.Line, a.Src, string(se))))
			}
			panic(r)
		}
	}()
	return fc.assignTargets(env, a)
}

func bindResults(env *SpecEnv, sig *types.Signature, res Val) {
	rs := sig.Results()
	if rs.Len() == 0 || res == nil {
		return
	}
	if rs.Len() == 1 {
		tv := TV{res, rs.At(0).Type()}
		env.vars["result"] = tv
		env.vars["result0"] = tv
		if n := rs.At(0).Name(); n != "" && n != "_" {
			env.vars[n] = tv
		}
		return
	}
	tup := res.(TupleV)
	for i := 0; i < rs.Len(); i++ {
		tv := TV{tup[i], rs.At(i).Type()}
		env.vars[fmt.Sprintf("result%d", i)] = tv
		if n := rs.At(i).Name(); n != "" && n != "_" {
			env.vars[n] = tv
		}
	}
}

func shortKey(key string) string {
	// strip the module path for readability
	key = strings.ReplaceAll(key, "github.com/dgraph-io/badger/v4/", "")
	key = strings.ReplaceAll(key, "github.com/dgraph-io/badger/v4.", "badger.")
	key = strings.ReplaceAll(key, "github.com/dgraph-io/badger/v4::", "badger.")
	key = strings.ReplaceAll(key, "::", ".")
	return key
}

// havocTarget forgets the value at one assigned location.
func (fc *FnCtx) havocTarget(st, pre *State, tg assignTarget) {
	if tg.scalarGhost {
		fc.keySort[tg.ghost] = tg.keys[0].sort
		fc.touched[tg.ghost] = true
		st.heap[tg.ghost] = fc.smt.declare("ghost", tg.keys[0].sort)
		return
	}
	if tg.ghost != "" {
		h := fc.heapSym(st, tg.ghost, "(Array Int Bool)")
		nv := fc.smt.declare("held", "Bool")
		fc.setHeap(st, tg.ghost, app("store", h, tg.ptr.Ref, nv))
		return
	}
	if tg.isRng {
		for _, l := range leavesOf(tg.et) {
			key := "elem|" + typeName(tg.et) + l.Suffix
			srt := arrSort(true, l.Sort)
			inner := "(Array (_ BitVec 64) " + l.Sort + ")"
			h := fc.heapSym(st, key, srt)
			old := fc.smt.defineAlways("old", inner, app("select", h, tg.s.Ref))
			na := fc.smt.declare("hav", inner)
			j := fc.smt.freshName("j")
			in := app("bvult", app("bvsub", j, tg.lo), app("bvsub", tg.hi, tg.lo))
			fc.smt.addExtra(na, fmt.Sprintf("(forall ((%s (_ BitVec 64))) (! (=> (not %s) (= (select %s %s) (select %s %s))) :pattern ((select %s %s))))", j, in, na, j, old, j, na, j))
			fc.setHeap(st, key, app("store", h, tg.s.Ref, na))
		}
		return
	}
	if _, isMap := tg.t.Underlying().(*types.Map); isMap && tg.ptr.Root == tg.t {
		// mapof(m): the contents of one map object
		for _, ks := range tg.keys {
			h := fc.heapSym(st, ks.key, ks.sort)
			inner := strings.TrimSuffix(strings.TrimPrefix(ks.sort, "(Array Int "), ")")
			nv := fc.smt.declare("hav", inner)
			fc.setHeap(st, ks.key, app("store", h, tg.ptr.Ref, nv))
		}
		return
	}
	v := fc.fresh(tg.t, "hav")
	fc.store(st, tg.ptr, tg.t, v)
	fc.assume(st, fc.typeInv(st, tg.t, v))
}

// inlineCall executes the callee's body in place.
func (br *bodyRun) inlineCall(st *State, fn *ssa.Function, bindings []Val, args []Val, rt types.Type, ct *Contract, x ssa.CallInstruction) Val {
	fc := br.fc
	if fc.depth > 6 {
		unsup("inlining too deep at %s", fn)
	}
	if len(fn.Blocks) == 0 {
		unsup("cannot inline %s: no body", fn)
	}
	fc.depth++
	defer func() { fc.depth-- }()
	if ct == nil && fn.Parent() == nil {
		// a helper without contract executed in place: its own panics were never obligations
		// of the caller (the helper is not under contract); only its effect is wanted
		fc.quiet++
		defer func() { fc.quiet-- }()
	}
	saved := map[ssa.Value]Val{}
	for i, p := range fn.Params {
		saved[p] = fc.vals[p]
		fc.vals[p] = args[i]
	}
	for i, fv := range fn.FreeVars {
		fc.vals[fv] = bindings[i]
	}
	var rets []*State
	var rvals [][]Val
	short := shortKey(fc.eng.fnDisplay(fn))
	fc.callOrd["inl:"+short]++
	prefix := fmt.Sprintf("%sinl:%s#%d/", br.prefix, short, fc.callOrd["inl:"+short])
	savedCounts := fc.counts
	fc.counts = map[string]int{}
	fc.execBody(fn, st.clone(), ct, prefix, func(rs *State, results []Val, ret *ssa.Return) {
		rets = append(rets, rs)
		rvals = append(rvals, results)
	})
	fc.counts = savedCounts
	if len(rets) == 0 {
		// callee never returns on feasible paths
		st.guard = "false"
		st.lite = "false"
		if rt == nil {
			return nil
		}
		return fc.fresh(rt, "noret")
	}
	tmp := &bodyRun{fc: fc}
	m := tmp.mergeStates(rets)
	*st = *m
	rs := fn.Signature.Results()
	if rs.Len() == 0 {
		return nil
	}
	var out TupleV
	for i := 0; i < rs.Len(); i++ {
		t := rs.At(i).Type()
		var v Val
		for k := len(rets) - 1; k >= 0; k-- {
			if v == nil {
				v = rvals[k][i]
			} else {
				v = iteVal(t, rets[k].liteG(), rvals[k][i], v)
			}
		}
		out = append(out, fc.nameVal(t, v, "ret"))
	}
	if rs.Len() == 1 {
		return out[0]
	}
	return out
}

// ---------------------------------------------------------------------------------------
// defers

func (br *bodyRun) addDefer(st *State, d *ssa.Defer) {
	fc := br.fc
	key := fmt.Sprintf("defer|%s|%d|%d", br.fn.Name(), d.Block().Index, len(br.defers))
	fc.keySort[key] = "Bool"
	st.heap[key] = "true"
	// capture argument values now
	br.defers = append(br.defers, &deferRec{instr: d, flag: key})
}

// markCalled: a deferred call that has run counts as called (called(f#k) in assertions anchored
// at the return that follows).
func (br *bodyRun) markCalled(st *State, ci ssa.CallInstruction) {
	if br.ct == nil || len(br.ct.Asserts) == 0 {
		return
	}
	if n := calleeName(ci); n != "" {
		key := fmt.Sprintf("called|%s#%d", n, br.siteOrdinal(ci, n))
		br.fc.keySort[key] = "Bool"
		st.heap[key] = "true"
	}
}

func (br *bodyRun) runDefers(st *State, b *ssa.BasicBlock, idx int) {
	fc := br.fc
	for i := len(br.defers) - 1; i >= 0; i-- {
		d := br.defers[i]
		flag, ok := st.heap[d.flag]
		if !ok || flag == "false" {
			continue
		}
		if flag == "true" {
			br.call(st, d.instr, b, idx)
			br.markCalled(st, d.instr)
			continue
		}
		// conditionally executed defer: run on a copy and merge
		s2 := st.clone()
		fc.assume(s2, flag)
		br.call(s2, d.instr, b, idx)
		br.markCalled(s2, d.instr)
		s1 := st.clone()
		fc.assume(s1, not(flag))
		m := br.mergeStates([]*State{s2, s1})
		*st = *m
	}
}

// ---------------------------------------------------------------------------------------
// user assertions: "assert[name] before call <callee>#k : expr", "after call ...", "at return"

func (br *bodyRun) userAsserts(b *ssa.BasicBlock, idx int, ins ssa.Instruction, st *State, when string) {
	if br.ct == nil || len(br.ct.Asserts) == 0 {
		return
	}
	fc := br.fc
	for i, a := range br.ct.Asserts {
		fs := strings.Fields(a.At)
		if len(fs) == 0 || fs[0] != when {
			continue
		}
		match := false
		switch {
		case len(fs) == 3 && fs[1] == "call":
			ci, ok := ins.(ssa.CallInstruction)
			if !ok {
				continue
			}
			name, ord := fs[2], 0
			if j := strings.Index(name, "#"); j >= 0 {
				fmt.Sscanf(name[j+1:], "%d", &ord)
				name = name[:j]
			}
			cn := calleeName(ci)
			if cn != name {
				continue
			}
			k := br.siteOrdinal(ci, name)
			match = ord == 0 || ord == k
		case len(fs) == 3 && fs[1] == "assign":
			// an assignment to the named source variable (registers only; a variable that lives
			// in a cell is assigned by a store): "before assign x[#k]"; 'assigned' is the new value
			name, ord := fs[2], 0
			if j := strings.Index(name, "#"); j >= 0 {
				fmt.Sscanf(name[j+1:], "%d", &ord)
				name = name[:j]
			}
			if a, ok := fc.eng.aliasFor(br.fn)[name]; ok {
				name = a
			}
			if sto, isStore := ins.(*ssa.Store); isStore {
				// a variable that lives in a cell: every store into it, in source order
				if a, ok := sto.Addr.(*ssa.Alloc); ok && a.Comment == name {
					var stores []*ssa.Store
					for _, bb := range br.fn.Blocks {
						for _, in2 := range bb.Instrs {
							if s2, ok := in2.(*ssa.Store); ok && s2.Addr == a {
								stores = append(stores, s2)
							}
						}
					}
					sort.SliceStable(stores, func(i, j int) bool { return stores[i].Pos() < stores[j].Pos() })
					for k, s2 := range stores {
						if s2 == sto && (ord == 0 || ord == k+1) {
							match = true
						}
					}
				}
				if !match {
					continue
				}
				break
			}
			dr, ok := ins.(*ssa.DebugRef)
			if !ok {
				continue
			}
			for k, s := range br.assignSites(name) {
				if s == dr && (ord == 0 || ord == k+1) {
					match = true
				}
			}
		case len(fs) == 3 && fs[1] == "closure":
			// the instruction that creates the closure assigned to the named local variable
			if mc, ok := ins.(*ssa.MakeClosure); ok {
				want := fs[2]
				if a, ok := fc.eng.aliasFor(br.fn)[want]; ok {
					want = a
				}
				match = closureName(mc.Fn.(*ssa.Function)) == want
			}
		case len(fs) == 2 && strings.HasPrefix(fs[1], "return"):
			_, match = ins.(*ssa.Return)
			if match && strings.Contains(fs[1], "#") {
				ord := 0
				fmt.Sscanf(fs[1][strings.Index(fs[1], "#")+1:], "%d", &ord)
				// return statements in source order
				var rets []ssa.Instruction
				for _, bb := range br.fn.Blocks {
					for _, in2 := range bb.Instrs {
						if _, isRet := in2.(*ssa.Return); isRet {
							rets = append(rets, in2)
						}
					}
				}
				sort.SliceStable(rets, func(i, j int) bool {
					pi, pj := rets[i].Pos(), rets[j].Pos()
					if pi.IsValid() != pj.IsValid() {
						return pi.IsValid()
					}
					return pi.IsValid() && pi < pj
				})
				match = false
				for k, in2 := range rets {
					if in2 == ins {
						match = k+1 == ord
					}
				}
			}
		}
		if !match {
			continue
		}
		env := br.envAt(b, idx, st, nil)
		if ci, ok := ins.(ssa.CallInstruction); ok {
			// the call's operands are visible as arg0, arg1, ... (receiver first)
			c := ci.Common()
			k := 0
			if c.IsInvoke() {
				env.vars["arg0"] = TV{fc.val(c.Value), c.Value.Type()}
				k = 1
			}
			for j, av := range c.Args {
				env.vars[fmt.Sprintf("arg%d", j+k)] = TV{fc.val(av), av.Type()}
			}
			if when == "after" {
				if v := ci.Value(); v != nil {
					if rv, ok := fc.vals[v]; ok {
						env.vars["ret"] = TV{rv, v.Type()}
						if tup, ok := rv.(TupleV); ok {
							tt := v.Type().(*types.Tuple)
							for j := range tup {
								env.vars[fmt.Sprintf("ret%d", j)] = TV{tup[j], tt.At(j).Type()}
							}
						}
					}
				}
			}
		}
		if sto, ok := ins.(*ssa.Store); ok {
			if v, ok := fc.vals[sto.Val]; ok {
				env.vars["assigned"] = TV{v, sto.Val.Type()}
			} else if c, isConst := sto.Val.(*ssa.Const); isConst {
				env.vars["assigned"] = TV{fc.constVal(c), sto.Val.Type()}
			}
		}
		if dr, ok := ins.(*ssa.DebugRef); ok {
			if v, ok := fc.vals[dr.X]; ok {
				env.vars["assigned"] = TV{v, dr.X.Type()}
			} else if c, isConst := dr.X.(*ssa.Const); isConst {
				env.vars["assigned"] = TV{fc.constVal(c), dr.X.Type()}
			}
		}
		if ret, ok := ins.(*ssa.Return); ok {
			var rs []Val
			for _, r := range ret.Results {
				rs = append(rs, fc.val(r))
			}
			var res Val
			switch len(rs) {
			case 0:
			case 1:
				res = rs[0]
			default:
				res = TupleV(rs)
			}
			bindResults(env, br.fn.Signature, res)
		}
		nm := a.Name
		if nm == "" {
			nm = fmt.Sprintf("%d", i+1)
		}
		br.assertHits[i]++
		if fc.assertHit == nil {
			fc.assertHit = map[*Clause]int{}
		}
		fc.assertHit[a]++
		if a.Kind == "reach" {
			s2 := st.clone()
			fc.assume(s2, fc.hyp(env, a.E))
			fc.cover(s2, br.prefix+"reach:"+nm, ins.Pos(), "the anchored instruction is reachable: "+a.Src)
			continue
		}
		fc.prove(env, a.E, st, br.prefix+"assert:"+nm, "assert", ins.Pos(), a.Src)
		// the instruction the assertion is anchored to must stay reachable: an assertion in
		// a branch that can no longer be taken would otherwise hold vacuously
		if fc.assertHit[a] == 1 {
			fc.cover(st, br.prefix+"cover:site:"+nm, ins.Pos(), "the instruction this assertion is anchored to is reachable")
		}
	}
}

func calleeName(ci ssa.CallInstruction) string {
	c := ci.Common()
	if c.IsInvoke() {
		return c.Method.Name()
	}
	switch f := c.Value.(type) {
	case *ssa.Function:
		// an instance of a generic function is called by the generic's name
		if o := f.Origin(); o != nil {
			return o.Name()
		}
		return f.Name()
	case *ssa.Builtin:
		return f.Name()
	case *ssa.MakeClosure:
		return closureName(f.Fn.(*ssa.Function))
	case *ssa.Parameter:
		// a function-typed parameter, called by its name
		return f.Name()
	case *ssa.FreeVar:
		return f.Name()
	case *ssa.UnOp:
		// a closure kept in a local variable (cell) or captured from the enclosing function
		switch x := f.X.(type) {
		case *ssa.FreeVar:
			return x.Name()
		case *ssa.Alloc:
			return x.Comment
		case *ssa.Global:
			// a package-level function variable
			return x.Name()
		case *ssa.FieldAddr:
			// a function-typed struct field, called as x.f(...)
			if st, ok := x.X.Type().Underlying().(*types.Pointer); ok {
				if s, ok := st.Elem().Underlying().(*types.Struct); ok && x.Field < s.NumFields() {
					return s.Field(x.Field).Name()
				}
			}
		}
	}
	// any other function value held in a local variable: the variable's name
	if v, ok := c.Value.(ssa.Value); ok && v.Referrers() != nil {
		for _, r := range *v.Referrers() {
			if dr, ok := r.(*ssa.DebugRef); ok && !dr.IsAddr && dr.Object() != nil {
				if tv, isVar := dr.Object().(*types.Var); isVar && !tv.IsField() {
					return dr.Object().Name()
				}
			}
		}
	}
	return ""
}

// closureName: the local variable a closure is assigned to (else its SSA name).
func closureName(fn *ssa.Function) string {
	r := relName(fn)
	if i := strings.LastIndex(r, "."); i >= 0 && !strings.HasPrefix(r[i+1:], "$") {
		return r[i+1:]
	}
	return fn.Name()
}

// siteOrdinal: position of the call among the calls to the same callee name, in block order.
func (br *bodyRun) siteOrdinal(ci ssa.CallInstruction, name string) int {
	for k, c := range br.callSites(name) {
		if c == ci {
			return k + 1
		}
	}
	return 0
}

// callSites: the calls to the named callee in SOURCE order (position), which is what "#k"
// means in contracts; calls without a position come last, in block order.
func (br *bodyRun) callSites(name string) []ssa.CallInstruction {
	if br.sites == nil {
		br.sites = map[string][]ssa.CallInstruction{}
	}
	if s, ok := br.sites[name]; ok {
		return s
	}
	var out []ssa.CallInstruction
	for _, b := range br.fn.Blocks {
		for _, ins := range b.Instrs {
			if c, ok := ins.(ssa.CallInstruction); ok && calleeName(c) == name {
				out = append(out, c)
			}
		}
	}
	sort.SliceStable(out, func(i, j int) bool {
		pi, pj := out[i].Pos(), out[j].Pos()
		if pi.IsValid() != pj.IsValid() {
			return pi.IsValid()
		}
		return pi.IsValid() && pi < pj
	})
	br.sites[name] = out
	return out
}

var _ = token.NoPos
