package main

import (
	"fmt"
	"os"
	"strings"

	"golang.org/x/tools/go/packages"
	"golang.org/x/tools/go/ssa"
	"golang.org/x/tools/go/ssa/ssautil"
)

func main() {
	cfg := &packages.Config{Mode: packages.LoadAllSyntax, Dir: "/repo", BuildFlags: []string{"-tags=verif"}}
	pkgs, err := packages.Load(cfg, os.Args[1])
	if err != nil {
		panic(err)
	}
	prog, spkgs := ssautil.AllPackages(pkgs, ssa.GlobalDebug)
	prog.Build()
	for _, p := range spkgs {
		if p == nil {
			continue
		}
		for _, name := range os.Args[2:] {
			for fn := range ssautil.AllFunctions(prog) {
				if fn.Pkg == p && (fn.Name() == name || strings.HasSuffix(fn.String(), name)) {
					fn.WriteTo(os.Stdout)
					fmt.Println()
				}
			}
		}
	}
}
