package main

// SMT-LIB text helpers and the solver portfolio.

import (
	"bytes"
	"context"
	"fmt"
	"os"
	"os/exec"
	"path/filepath"
	"strings"
	"sync/atomic"
	"time"
)

var zero64 = "#x0000000000000000"

func app(op string, args ...string) string {
	if len(args) == 2 {
		switch op {
		case "bvadd":
			if args[1] == zero64 {
				return args[0]
			}
			if args[0] == zero64 {
				return args[1]
			}
		case "bvsub":
			if args[1] == zero64 {
				return args[0]
			}
		}
	}
	return "(" + op + " " + strings.Join(args, " ") + ")"
}

func and(xs ...string) string {
	var ys []string
	for _, x := range xs {
		if x == "true" || x == "" {
			continue
		}
		if x == "false" {
			return "false"
		}
		ys = append(ys, x)
	}
	switch len(ys) {
	case 0:
		return "true"
	case 1:
		return ys[0]
	}
	return app("and", ys...)
}

func or(xs ...string) string {
	var ys []string
	for _, x := range xs {
		if x == "false" || x == "" {
			continue
		}
		if x == "true" {
			return "true"
		}
		ys = append(ys, x)
	}
	switch len(ys) {
	case 0:
		return "false"
	case 1:
		return ys[0]
	}
	return app("or", ys...)
}

func not(x string) string {
	switch x {
	case "true":
		return "false"
	case "false":
		return "true"
	}
	if strings.HasPrefix(x, "(not ") && balanced(x[5:len(x)-1]) {
		return x[5 : len(x)-1]
	}
	return app("not", x)
}

func balanced(s string) bool {
	d := 0
	for _, c := range s {
		if c == '(' {
			d++
		} else if c == ')' {
			d--
			if d < 0 {
				return false
			}
		}
	}
	return d == 0
}

func implies(a, b string) string {
	if a == "true" {
		return b
	}
	if b == "true" {
		return "true"
	}
	return app("=>", a, b)
}

func ite(c, a, b string) string {
	if c == "true" {
		return a
	}
	if c == "false" {
		return b
	}
	if a == b {
		return a
	}
	return app("ite", c, a, b)
}

func eq(a, b string) string {
	if a == b {
		return "true"
	}
	return app("=", a, b)
}

func bvlit(v uint64, w int) string {
	if w%4 == 0 {
		return fmt.Sprintf("#x%0*x", w/4, v&mask(w))
	}
	return fmt.Sprintf("(_ bv%d %d)", v&mask(w), w)
}

func mask(w int) uint64 {
	if w >= 64 {
		return ^uint64(0)
	}
	return (uint64(1) << uint(w)) - 1
}

func intlit(v int64) string {
	if v < 0 {
		return fmt.Sprintf("(- %d)", -v)
	}
	return fmt.Sprintf("%d", v)
}

func bvsort(w int) string { return fmt.Sprintf("(_ BitVec %d)", w) }

// ---------------------------------------------------------------------------------------
// Solver portfolio

type SolverResult struct {
	Status  string // unsat | sat | unknown | timeout | error
	Solver  string
	Seconds float64
	Output  string
	Model   string
}

type solverSpec struct {
	name string
	argv func(file string, tmoSec int) []string
	pre  string
}

var solvers = []solverSpec{
	{"z3-new-5.1.0", func(f string, t int) []string { return []string{"z3-new", fmt.Sprintf("-T:%d", t), f} }, ""},
	{"cvc5-1.0", func(f string, t int) []string {
		return []string{"cvc5", "--lang=smt2", fmt.Sprintf("--tlimit=%d", t*1000), "--produce-models", f}
	}, "(set-logic ALL)\n"},
	{"z3-4.8.12", func(f string, t int) []string { return []string{"/usr/bin/z3", fmt.Sprintf("-T:%d", t), f} }, ""},
}

var queryCounter int64
var scratchDir string

func initScratch() {
	d := os.Getenv("GVC_SCRATCH")
	if d == "" {
		d = filepath.Join(os.TempDir(), fmt.Sprintf("gvc-%d", os.Getpid()))
	}
	os.MkdirAll(d, 0o755)
	scratchDir = d
}

func cleanupScratch() {
	if scratchDir != "" && os.Getenv("GVC_KEEP") == "" {
		os.RemoveAll(scratchDir)
	}
}

// runQuery sends the query to the portfolio: the first solver first; if it does not answer
// unsat/sat within a short time the others are raced. wantModel appends (get-model) for sat.
func runQuery(body string, tmoSec int, wantModel bool) SolverResult {
	n := atomic.AddInt64(&queryCounter, 1)
	var best SolverResult
	best.Status = "unknown"
	type res struct{ r SolverResult }
	// stage 1: z3-new alone with a short budget
	first := tmoSec
	if first > 4 {
		first = 4
	}
	r := runOne(solvers[0], body, first, n, wantModel)
	if r.Status == "unsat" || r.Status == "sat" {
		return r
	}
	best = r
	// stage 2: race all three with the full budget
	ch := make(chan SolverResult, len(solvers))
	ctx, cancel := context.WithCancel(context.Background())
	defer cancel()
	for _, s := range solvers {
		s := s
		go func() { ch <- runOneCtx(ctx, s, body, tmoSec, n, wantModel) }()
	}
	total := 0.0
	for range solvers {
		r := <-ch
		total += r.Seconds
		if r.Status == "unsat" || r.Status == "sat" {
			cancel()
			return r
		}
		if best.Status == "error" || (best.Status == "unknown" && r.Status == "timeout") {
			best = r
		}
	}
	best.Seconds += total
	return best
}

func runOne(s solverSpec, body string, tmo int, n int64, wantModel bool) SolverResult {
	return runOneCtx(context.Background(), s, body, tmo, n, wantModel)
}

func runOneCtx(ctx context.Context, s solverSpec, body string, tmo int, n int64, wantModel bool) SolverResult {
	file := filepath.Join(scratchDir, fmt.Sprintf("q%d-%s.smt2", n, s.name))
	var b bytes.Buffer
	if strings.HasPrefix(s.name, "cvc5") {
		b.WriteString("(set-option :produce-models true)\n")
	}
	b.WriteString(s.pre)
	b.WriteString(body)
	b.WriteString("\n(check-sat)\n")
	if wantModel {
		b.WriteString("(get-model)\n")
	}
	os.WriteFile(file, b.Bytes(), 0o644)
	defer func() {
		if os.Getenv("GVC_KEEP") == "" {
			os.Remove(file)
		}
	}()
	cctx, cancel := context.WithTimeout(ctx, time.Duration(tmo+2)*time.Second)
	defer cancel()
	argv := s.argv(file, tmo)
	cmd := exec.CommandContext(cctx, argv[0], argv[1:]...)
	var out bytes.Buffer
	cmd.Stdout = &out
	cmd.Stderr = &out
	t0 := time.Now()
	cmd.Run()
	dt := time.Since(t0).Seconds()
	o := out.String()
	line := ""
	pos := 0
	for _, l := range strings.SplitAfter(o, "\n") {
		t := strings.TrimSpace(l)
		if t == "sat" || t == "unsat" || t == "unknown" || t == "timeout" {
			line = t
			break
		}
		if strings.HasPrefix(t, "(error") {
			// an error before the verdict: the query was not well-formed
			break
		}
		pos += len(l)
	}
	if line != "" {
		o = o[pos:]
	}
	r := SolverResult{Solver: s.name, Seconds: dt, Output: trunc(o, 4000)}
	switch {
	case line == "unsat":
		r.Status = "unsat"
	case line == "sat":
		r.Status = "sat"
		if i := strings.Index(o, "\n"); i >= 0 {
			r.Model = o[i+1:]
		}
	case line == "unknown":
		r.Status = "unknown"
	case line == "timeout" || strings.Contains(o, "timeout") || cctx.Err() != nil:
		r.Status = "timeout"
	default:
		r.Status = "error"
	}
	return r
}

func trunc(s string, n int) string {
	if len(s) <= n {
		return s
	}
	return s[:n] + "…"
}
