package main

// Parser for the contract expression language (Go expressions plus forall/exists, ==>, <==>,
// c ? a : b, old(e), x in m).

import (
	"fmt"
	"strings"
	"unicode"
)

type TypeExpr struct {
	K    string // "name", "slice", "ptr", "map"
	Name string // for "name": possibly pkg.Name
	Elem *TypeExpr
	Key  *TypeExpr
}

func (t *TypeExpr) String() string {
	switch t.K {
	case "slice":
		return "[]" + t.Elem.String()
	case "ptr":
		return "*" + t.Elem.String()
	case "map":
		return "map[" + t.Key.String() + "]" + t.Elem.String()
	}
	return t.Name
}

type Binder struct {
	Name string
	Type *TypeExpr
}

type Expr struct {
	K    string // id num str bin un call index slice sel quant tern typ
	Op   string
	X    []*Expr
	Name string
	Vars []Binder
	Trig [][]*Expr
	Type *TypeExpr
}

func (e *Expr) String() string {
	if e == nil {
		return "<nil>"
	}
	switch e.K {
	case "id", "num":
		return e.Name
	case "str":
		return fmt.Sprintf("%q", e.Name)
	case "bin":
		return "(" + e.X[0].String() + " " + e.Op + " " + e.X[1].String() + ")"
	case "un":
		return e.Op + e.X[0].String()
	case "call":
		var as []string
		for _, a := range e.X[1:] {
			as = append(as, a.String())
		}
		return e.X[0].String() + "(" + strings.Join(as, ", ") + ")"
	case "index":
		return e.X[0].String() + "[" + e.X[1].String() + "]"
	case "slice":
		s := e.X[0].String() + "["
		if e.X[1] != nil {
			s += e.X[1].String()
		}
		s += ":"
		if e.X[2] != nil {
			s += e.X[2].String()
		}
		return s + "]"
	case "sel":
		return e.X[0].String() + "." + e.Name
	case "quant":
		var bs []string
		for _, b := range e.Vars {
			bs = append(bs, b.Name+" "+b.Type.String())
		}
		return "(" + e.Op + " " + strings.Join(bs, ", ") + " :: " + e.X[0].String() + ")"
	case "tern":
		return "(" + e.X[0].String() + " ? " + e.X[1].String() + " : " + e.X[2].String() + ")"
	case "typ":
		return e.Type.String()
	}
	return "?" + e.K
}

type tok struct {
	k string // id num str op eof
	s string
}

type lexer struct {
	toks []tok
	pos  int
	src  string
}

var ops3 = []string{"<==>", "==>", "&&", "||", "==", "!=", "<=", ">=", "<<", ">>", "&^", "::"}

func lex(src string) ([]tok, error) {
	var toks []tok
	i := 0
	for i < len(src) {
		c := src[i]
		if c == ' ' || c == '\t' || c == '\n' {
			i++
			continue
		}
		if unicode.IsLetter(rune(c)) || c == '_' {
			j := i
			for j < len(src) && (unicode.IsLetter(rune(src[j])) || unicode.IsDigit(rune(src[j])) || src[j] == '_' || src[j] == '#') {
				j++
			}
			toks = append(toks, tok{"id", src[i:j]})
			i = j
			continue
		}
		if unicode.IsDigit(rune(c)) {
			j := i
			for j < len(src) && (unicode.IsDigit(rune(src[j])) || unicode.IsLetter(rune(src[j])) || src[j] == '_') {
				j++
			}
			toks = append(toks, tok{"num", strings.ReplaceAll(src[i:j], "_", "")})
			i = j
			continue
		}
		if c == '"' {
			j := i + 1
			for j < len(src) && src[j] != '"' {
				if src[j] == '\\' {
					j++
				}
				j++
			}
			if j >= len(src) {
				return nil, fmt.Errorf("unterminated string in %q", src)
			}
			s, err := unquote(src[i : j+1])
			if err != nil {
				return nil, err
			}
			toks = append(toks, tok{"str", s})
			i = j + 1
			continue
		}
		if c == '\'' {
			j := i + 1
			for j < len(src) && src[j] != '\'' {
				if src[j] == '\\' {
					j++
				}
				j++
			}
			s, err := unquote("\"" + src[i+1:j] + "\"")
			if err != nil || len(s) != 1 {
				return nil, fmt.Errorf("bad char literal in %q", src)
			}
			toks = append(toks, tok{"num", fmt.Sprintf("%d", s[0])})
			i = j + 1
			continue
		}
		matched := false
		for _, o := range ops3 {
			if strings.HasPrefix(src[i:], o) {
				toks = append(toks, tok{"op", o})
				i += len(o)
				matched = true
				break
			}
		}
		if matched {
			continue
		}
		if strings.ContainsRune("+-*/%&|^!<>()[]{}.,:?=", rune(c)) {
			toks = append(toks, tok{"op", string(c)})
			i++
			continue
		}
		return nil, fmt.Errorf("unexpected character %q in %q", c, src)
	}
	toks = append(toks, tok{"eof", ""})
	return toks, nil
}

func unquote(s string) (string, error) {
	// minimal Go string unquote supporting \xHH, \n, \t, \\, \", \0
	var b []byte
	s = s[1 : len(s)-1]
	for i := 0; i < len(s); i++ {
		if s[i] != '\\' {
			b = append(b, s[i])
			continue
		}
		i++
		if i >= len(s) {
			return "", fmt.Errorf("bad escape")
		}
		switch s[i] {
		case 'n':
			b = append(b, '\n')
		case 't':
			b = append(b, '\t')
		case '\\':
			b = append(b, '\\')
		case '"':
			b = append(b, '"')
		case '\'':
			b = append(b, '\'')
		case '0':
			b = append(b, 0)
		case 'x':
			if i+2 >= len(s)+0 && i+2 > len(s)-0 {
				return "", fmt.Errorf("bad \\x")
			}
			var v byte
			fmt.Sscanf(s[i+1:i+3], "%02x", &v)
			b = append(b, v)
			i += 2
		default:
			return "", fmt.Errorf("bad escape \\%c", s[i])
		}
	}
	return string(b), nil
}

type parser struct {
	toks []tok
	p    int
	src  string
}

func parseExpr(src string) (e *Expr, err error) {
	toks, err := lex(src)
	if err != nil {
		return nil, err
	}
	ps := &parser{toks: toks, src: src}
	defer func() {
		if r := recover(); r != nil {
			if pe, ok := r.(parseErr); ok {
				err = fmt.Errorf("%s (in %q)", string(pe), src)
				return
			}
			panic(r)
		}
	}()
	e = ps.expr()
	if ps.peek().k != "eof" {
		ps.fail("unexpected %q", ps.peek().s)
	}
	return e, nil
}

type parseErr string

func (p *parser) fail(f string, a ...interface{}) { panic(parseErr(fmt.Sprintf(f, a...))) }
func (p *parser) peek() tok                      { return p.toks[p.p] }
func (p *parser) next() tok                      { t := p.toks[p.p]; p.p++; return t }
func (p *parser) isOp(s string) bool               { t := p.peek(); return t.k == "op" && t.s == s }
func (p *parser) isID(s string) bool               { t := p.peek(); return t.k == "id" && t.s == s }
func (p *parser) expect(s string) {
	if !p.isOp(s) {
		p.fail("expected %q, found %q", s, p.peek().s)
	}
	p.p++
}

func (p *parser) expr() *Expr { return p.iff() }

func (p *parser) iff() *Expr {
	l := p.impl()
	for p.isOp("<==>") {
		p.next()
		r := p.impl()
		l = &Expr{K: "bin", Op: "<==>", X: []*Expr{l, r}}
	}
	return l
}

func (p *parser) impl() *Expr {
	l := p.tern()
	if p.isOp("==>") {
		p.next()
		r := p.impl()
		return &Expr{K: "bin", Op: "==>", X: []*Expr{l, r}}
	}
	return l
}

func (p *parser) tern() *Expr {
	c := p.binary(1)
	if p.isOp("?") {
		p.next()
		a := p.expr()
		p.expect(":")
		b := p.tern()
		return &Expr{K: "tern", X: []*Expr{c, a, b}}
	}
	return c
}

func prec(t tok) int {
	if t.k == "id" && t.s == "in" {
		return 3
	}
	if t.k != "op" {
		return 0
	}
	switch t.s {
	case "||":
		return 1
	case "&&":
		return 2
	case "==", "!=", "<", "<=", ">", ">=":
		return 3
	case "+", "-", "|", "^":
		return 4
	case "*", "/", "%", "<<", ">>", "&", "&^":
		return 5
	}
	return 0
}

func (p *parser) binary(min int) *Expr {
	l := p.unary()
	for {
		t := p.peek()
		pr := prec(t)
		if pr < min || pr == 0 {
			return l
		}
		p.next()
		r := p.binary(pr + 1)
		l = &Expr{K: "bin", Op: t.s, X: []*Expr{l, r}}
	}
}

func (p *parser) unary() *Expr {
	t := p.peek()
	if t.k == "op" {
		switch t.s {
		case "!", "-", "^", "*", "&":
			p.next()
			x := p.unary()
			return &Expr{K: "un", Op: t.s, X: []*Expr{x}}
		}
	}
	return p.postfix()
}

func (p *parser) postfix() *Expr {
	e := p.primary()
	for {
		switch {
		case p.isOp("."):
			p.next()
			t := p.next()
			if t.k != "id" {
				p.fail("expected field name after '.'")
			}
			e = &Expr{K: "sel", Name: t.s, X: []*Expr{e}}
		case p.isOp("["):
			p.next()
			var lo, hi *Expr
			if !p.isOp(":") {
				lo = p.expr()
			}
			if p.isOp(":") {
				p.next()
				if !p.isOp("]") {
					hi = p.expr()
				}
				p.expect("]")
				e = &Expr{K: "slice", X: []*Expr{e, lo, hi}}
			} else {
				p.expect("]")
				e = &Expr{K: "index", X: []*Expr{e, lo}}
			}
		case p.isOp("("):
			p.next()
			args := []*Expr{e}
			for !p.isOp(")") {
				args = append(args, p.expr())
				if p.isOp(",") {
					p.next()
				} else {
					break
				}
			}
			p.expect(")")
			e = &Expr{K: "call", X: args}
		default:
			return e
		}
	}
}

func (p *parser) typeExpr() *TypeExpr {
	switch {
	case p.isOp("["):
		p.next()
		p.expect("]")
		return &TypeExpr{K: "slice", Elem: p.typeExpr()}
	case p.isOp("*"):
		p.next()
		return &TypeExpr{K: "ptr", Elem: p.typeExpr()}
	case p.isID("map"):
		p.next()
		p.expect("[")
		k := p.typeExpr()
		p.expect("]")
		return &TypeExpr{K: "map", Key: k, Elem: p.typeExpr()}
	}
	t := p.next()
	if t.k != "id" {
		p.fail("expected type, found %q", t.s)
	}
	name := t.s
	if p.isOp(".") && p.toks[p.p+1].k == "id" {
		p.next()
		name += "." + p.next().s
	}
	return &TypeExpr{K: "name", Name: name}
}

func (p *parser) primary() *Expr {
	t := p.peek()
	switch {
	case t.k == "num":
		p.next()
		return &Expr{K: "num", Name: t.s}
	case t.k == "str":
		p.next()
		return &Expr{K: "str", Name: t.s}
	case t.k == "id" && (t.s == "forall" || t.s == "exists"):
		p.next()
		q := &Expr{K: "quant", Op: t.s}
		for {
			n := p.next()
			if n.k != "id" {
				p.fail("expected bound variable name")
			}
			ty := p.typeExpr()
			q.Vars = append(q.Vars, Binder{n.s, ty})
			if p.isOp(",") {
				p.next()
				continue
			}
			break
		}
		for p.isOp("{") {
			p.next()
			var g []*Expr
			for {
				g = append(g, p.expr())
				if p.isOp(",") {
					p.next()
					continue
				}
				break
			}
			p.expect("}")
			q.Trig = append(q.Trig, g)
		}
		p.expect("::")
		q.X = []*Expr{p.expr()}
		return q
	case t.k == "id":
		p.next()
		return &Expr{K: "id", Name: t.s}
	case t.k == "op" && t.s == "(":
		p.next()
		e := p.expr()
		p.expect(")")
		return e
	case t.k == "op" && t.s == "[":
		// []byte(...) style conversion or a slice type literal used as a type argument
		ty := p.typeExpr()
		return &Expr{K: "typ", Type: ty}
	}
	p.fail("unexpected %q", t.s)
	return nil
}
