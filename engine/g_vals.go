package main

// Symbolic values: how Go values are represented as tuples of SMT terms.

import (
	"fmt"
	"go/types"
	"regexp"
	"strings"
)

type Val interface{}

// Scalar: bool (Bool), integers (BitVec w), floats (F64, uninterpreted), map/chan/func/
// unsafe.Pointer references (Int).
type Scalar struct{ T string }

// SliceV: slices and strings. Ref is the region (Int; 0 = nil), Off the absolute index of
// element 0 in the region, Len and Cap as in Go (BV64, signed interpretation).
type SliceV struct{ Ref, Off, Len, Cap string }

type StructV struct{ F []Val }

// ArrV: a by-value Go array; one SMT array (BV64 -> leaf sort) per leaf of the element type.
type ArrV struct{ Leaves []string }

type IfaceV struct{ Tag, Ref string }

type TupleV []Val

const (
	PObj  = iota // pointer to an object (struct or single cell) or into one of its by-value fields
	PElem        // pointer to (a field of) an element of a region
	PArr         // pointer to a whole array region
)

type PtrV struct {
	Kind int
	Ref  string     // Int term
	Idx  string     // BV64 absolute index (PElem)
	Root types.Type // type of the object / element at (Ref[,Idx])
	Path []int      // struct field path from Root to the pointee
}

// FuncV: a statically known function or closure.
type FuncV struct {
	Fn       interface{} // *ssa.Function
	Bindings []Val
}

// UntypedConst: integer constant in a contract expression that has not yet taken a type.
type UntypedConst struct{ V string } // decimal string (may be negative)

const ptrBits = 64

func isUnsigned(t types.Type) bool {
	b, ok := t.Underlying().(*types.Basic)
	return ok && b.Info()&types.IsUnsigned != 0
}

func intWidth(t types.Type) int {
	b, ok := t.Underlying().(*types.Basic)
	if !ok {
		return 0
	}
	switch b.Kind() {
	case types.Int8, types.Uint8:
		return 8
	case types.Int16, types.Uint16:
		return 16
	case types.Int32, types.Uint32:
		return 32
	case types.Int64, types.Uint64, types.Int, types.Uint, types.Uintptr, types.UntypedInt, types.UntypedRune:
		return 64
	}
	return 0
}

func isInt(t types.Type) bool { return intWidth(t) > 0 }

func isBool(t types.Type) bool {
	b, ok := t.Underlying().(*types.Basic)
	return ok && b.Info()&types.IsBoolean != 0
}

func isFloat(t types.Type) bool {
	b, ok := t.Underlying().(*types.Basic)
	return ok && b.Info()&(types.IsFloat|types.IsComplex) != 0
}

func isString(t types.Type) bool {
	b, ok := t.Underlying().(*types.Basic)
	return ok && b.Info()&types.IsString != 0
}

// Leaf describes one SMT-level component of a Go type.
type Leaf struct {
	Suffix string
	Sort   string
}

type unsupported string

func (u unsupported) Error() string { return string(u) }

func unsup(f string, a ...interface{}) { panic(unsupported(fmt.Sprintf(f, a...))) }

func typeName(t types.Type) string {
	s := types.TypeString(t, func(p *types.Package) string { return p.Name() })
	s = byteRe.ReplaceAllString(s, "uint8")
	s = runeRe.ReplaceAllString(s, "int32")
	s = strings.NewReplacer(" ", "", "|", "!").Replace(s)
	if len(s) > 60 {
		s = fmt.Sprintf("%s~%x", s[:40], hashStr(s))
	}
	return s
}

var byteRe = regexp.MustCompile(`\bbyte\b`)
var runeRe = regexp.MustCompile(`\brune\b`)

func hashStr(s string) uint32 {
	var h uint32 = 2166136261
	for i := 0; i < len(s); i++ {
		h = (h ^ uint32(s[i])) * 16777619
	}
	return h
}

func leavesOf(t types.Type) []Leaf {
	switch u := t.Underlying().(type) {
	case *types.Basic:
		switch {
		case isBool(t):
			return []Leaf{{"", "Bool"}}
		case isInt(t):
			return []Leaf{{"", bvsort(intWidth(t))}}
		case isFloat(t):
			return []Leaf{{"", "F64"}}
		case isString(t):
			return []Leaf{{"#ref", "Int"}, {"#off", bvsort(64)}, {"#len", bvsort(64)}}
		case u.Kind() == types.UnsafePointer:
			return []Leaf{{"", "Int"}}
		case u.Kind() == types.UntypedNil:
			return []Leaf{{"", "Int"}}
		}
	case *types.Pointer, *types.Map, *types.Chan, *types.Signature:
		return []Leaf{{"", "Int"}}
	case *types.Slice:
		return []Leaf{{"#ref", "Int"}, {"#off", bvsort(64)}, {"#len", bvsort(64)}, {"#cap", bvsort(64)}}
	case *types.Interface:
		return []Leaf{{"#tag", "Int"}, {"#ref", "Int"}}
	case *types.Struct:
		var out []Leaf
		for i := 0; i < u.NumFields(); i++ {
			f := u.Field(i)
			for _, l := range leavesOf(f.Type()) {
				out = append(out, Leaf{"." + f.Name() + l.Suffix, l.Sort})
			}
		}
		return out
	case *types.Array:
		var out []Leaf
		for _, l := range leavesOf(u.Elem()) {
			out = append(out, Leaf{"#arr" + l.Suffix, "(Array (_ BitVec 64) " + l.Sort + ")"})
		}
		return out
	case *types.Tuple:
		var out []Leaf
		for i := 0; i < u.Len(); i++ {
			for _, l := range leavesOf(u.At(i).Type()) {
				out = append(out, Leaf{fmt.Sprintf("$%d%s", i, l.Suffix), l.Sort})
			}
		}
		return out
	}
	unsup("type %s is outside the subset", t)
	return nil
}

// flatten lists the SMT terms of v in leavesOf(t) order.
func flatten(t types.Type, v Val) []string {
	switch u := t.Underlying().(type) {
	case *types.Basic:
		if isString(t) {
			s := v.(SliceV)
			return []string{s.Ref, s.Off, s.Len}
		}
		return []string{v.(Scalar).T}
	case *types.Pointer:
		switch p := v.(type) {
		case PtrV:
			if p.Kind != PObj || len(p.Path) != 0 {
				unsup("interior or element pointer used as a first-class value (type %s)", t)
			}
			return []string{p.Ref}
		case Scalar:
			return []string{p.T}
		}
	case *types.Map, *types.Chan:
		return []string{v.(Scalar).T}
	case *types.Signature:
		if s, ok := v.(Scalar); ok {
			return []string{s.T}
		}
		return []string{"0"} // closures are not first-class in the model: identity dropped
	case *types.Slice:
		s := v.(SliceV)
		return []string{s.Ref, s.Off, s.Len, s.Cap}
	case *types.Interface:
		i := v.(IfaceV)
		return []string{i.Tag, i.Ref}
	case *types.Struct:
		sv := v.(StructV)
		var out []string
		for i := 0; i < u.NumFields(); i++ {
			out = append(out, flatten(u.Field(i).Type(), sv.F[i])...)
		}
		return out
	case *types.Array:
		return append([]string(nil), v.(ArrV).Leaves...)
	case *types.Tuple:
		tv := v.(TupleV)
		var out []string
		for i := 0; i < u.Len(); i++ {
			out = append(out, flatten(u.At(i).Type(), tv[i])...)
		}
		return out
	}
	unsup("flatten: type %s (%T)", t, v)
	return nil
}

// unflatten is the inverse of flatten; it consumes terms from *ts.
func unflatten(t types.Type, ts *[]string) Val {
	take := func() string { x := (*ts)[0]; *ts = (*ts)[1:]; return x }
	switch u := t.Underlying().(type) {
	case *types.Basic:
		if isString(t) {
			r, o, l := take(), take(), take()
			return SliceV{r, o, l, l}
		}
		return Scalar{take()}
	case *types.Pointer:
		return PtrV{Kind: PObj, Ref: take(), Root: u.Elem()}
	case *types.Map, *types.Chan, *types.Signature:
		return Scalar{take()}
	case *types.Slice:
		return SliceV{take(), take(), take(), take()}
	case *types.Interface:
		return IfaceV{take(), take()}
	case *types.Struct:
		sv := StructV{}
		for i := 0; i < u.NumFields(); i++ {
			sv.F = append(sv.F, unflatten(u.Field(i).Type(), ts))
		}
		return sv
	case *types.Array:
		n := len(leavesOf(u.Elem()))
		a := ArrV{}
		for i := 0; i < n; i++ {
			a.Leaves = append(a.Leaves, take())
		}
		return a
	case *types.Tuple:
		var tv TupleV
		for i := 0; i < u.Len(); i++ {
			tv = append(tv, unflatten(u.At(i).Type(), ts))
		}
		return tv
	}
	unsup("unflatten: type %s", t)
	return nil
}

func zeroTerm(sort string) string {
	switch {
	case sort == "Bool":
		return "false"
	case sort == "Int":
		return "0"
	case sort == "F64":
		return "f64zero"
	case strings.HasPrefix(sort, "(_ BitVec "):
		var w int
		fmt.Sscanf(sort, "(_ BitVec %d)", &w)
		return bvlit(0, w)
	case strings.HasPrefix(sort, "(Array "):
		// (Array (_ BitVec 64) X)
		inner := strings.TrimSuffix(strings.TrimPrefix(sort, "(Array (_ BitVec 64) "), ")")
		return "((as const " + sort + ") " + zeroTerm(inner) + ")"
	}
	panic("zeroTerm: " + sort)
}

func zeroVal(t types.Type) Val {
	ls := leavesOf(t)
	ts := make([]string, len(ls))
	for i, l := range ls {
		ts[i] = zeroTerm(l.Sort)
	}
	return unflatten(t, &ts)
}

func iteVal(t types.Type, c string, a, b Val) Val {
	if pa, ok := a.(PtrV); ok {
		pb, ok2 := b.(PtrV)
		if !ok2 {
			unsup("merge of pointer with non-pointer")
		}
		return mergePtr(c, pa, pb)
	}
	if fa, ok := a.(FuncV); ok {
		if fb, ok := b.(FuncV); ok && fa.Fn == fb.Fn && len(fa.Bindings) == 0 && len(fb.Bindings) == 0 {
			return fa
		}
		unsup("merge of distinct function values")
	}
	fa, fb := flatten(t, a), flatten(t, b)
	out := make([]string, len(fa))
	for i := range fa {
		out[i] = ite(c, fa[i], fb[i])
	}
	return unflatten(t, &out)
}

func isNilPtr(p PtrV) bool { return p.Ref == "0" && p.Kind == PObj && len(p.Path) == 0 }

func mergePtr(c string, a, b PtrV) PtrV {
	if isNilPtr(a) && !isNilPtr(b) {
		r := b
		r.Ref = ite(c, "0", b.Ref)
		return r
	}
	if isNilPtr(b) && !isNilPtr(a) {
		r := a
		r.Ref = ite(c, a.Ref, "0")
		return r
	}
	if a.Kind != b.Kind || len(a.Path) != len(b.Path) || (a.Root != nil && b.Root != nil && !types.Identical(a.Root, b.Root)) {
		unsup("merge of pointers with different static shapes")
	}
	for i := range a.Path {
		if a.Path[i] != b.Path[i] {
			unsup("merge of pointers to different fields")
		}
	}
	r := a
	r.Ref = ite(c, a.Ref, b.Ref)
	if a.Kind == PElem {
		r.Idx = ite(c, a.Idx, b.Idx)
	}
	return r
}

// eqVal: Go's == on comparable values (and identity on slices for specifications).
func eqVal(t types.Type, a, b Val) string {
	if pa, ok := a.(PtrV); ok {
		pb := b.(PtrV)
		if isNilPtr(pa) || isNilPtr(pb) {
			return eq(pa.Ref, pb.Ref)
		}
		if pa.Kind != pb.Kind || len(pa.Path) != len(pb.Path) {
			return "false"
		}
		for i := range pa.Path {
			if pa.Path[i] != pb.Path[i] {
				return "false"
			}
		}
		if pa.Kind == PElem {
			return and(eq(pa.Ref, pb.Ref), eq(pa.Idx, pb.Idx))
		}
		return eq(pa.Ref, pb.Ref)
	}
	fa, fb := flatten(t, a), flatten(t, b)
	var cs []string
	for i := range fa {
		cs = append(cs, eq(fa[i], fb[i]))
	}
	return and(cs...)
}
