package main

// Instruction semantics.

import (
	"fmt"
	"runtime"
	"go/token"
	"go/types"

	"golang.org/x/tools/go/ssa"
)

func (br *bodyRun) step(st *State, ins ssa.Instruction, b *ssa.BasicBlock, idx int) {
	fc := br.fc
	if fc.light {
		defer func() {
			if r := recover(); r != nil {
				if te, isTE := r.(*runtime.TypeAssertionError); isTE {
					// a value abstracted earlier has no structure: abstract this instruction too
					r = unsupported("operand was abstracted: " + te.Error())
				}
				if u, ok := r.(unsupported); ok {
					// light mode: abstract the instruction
					fc.note("light mode: %s abstracted (%s)", insName(ins), string(u))
					if v, ok := ins.(ssa.Value); ok {
						func() {
							defer func() {
								if r2 := recover(); r2 != nil {
									fc.vals[v] = Scalar{"0"}
								}
							}()
							fc.vals[v] = fc.freshTyped(st, v.Type(), v.Name())
						}()
					}
					switch ins.(type) {
					case *ssa.Store, *ssa.Call, *ssa.MapUpdate:
						fc.havocAll(st)
					}
					return
				}
				panic(r)
			}
		}()
	}
	switch x := ins.(type) {
	case *ssa.DebugRef:
		return
	case *ssa.Alloc:
		et := x.Type().(*types.Pointer).Elem()
		ref := fc.newRef(st, "new_"+x.Comment)
		var p PtrV
		if at, ok := et.Underlying().(*types.Array); ok {
			p = PtrV{Kind: PArr, Ref: ref, Root: et}
			for _, l := range leavesOf(at.Elem()) {
				key := "elem|" + typeName(at.Elem()) + l.Suffix
				srt := arrSort(true, l.Sort)
				h := fc.heapSym(st, key, srt)
				fc.setHeap(st, key, app("store", h, ref, zeroTerm("(Array (_ BitVec 64) "+l.Sort+")")))
			}
		} else {
			p = PtrV{Kind: PObj, Ref: ref, Root: et}
			fc.store(st, p, et, zeroVal(et))
		}
		fc.vals[x] = p
	case *ssa.BinOp:
		fc.vals[x] = fc.nameVal(x.Type(), br.binop(st, x), x.Name())
	case *ssa.UnOp:
		fc.vals[x] = br.unop(st, x)
	case *ssa.ChangeType:
		fc.vals[x] = fc.val(x.X)
	case *ssa.ChangeInterface:
		fc.vals[x] = fc.val(x.X)
	case *ssa.Convert:
		fc.vals[x] = br.convert(st, x)
	case *ssa.MakeInterface:
		fc.vals[x] = fc.makeInterface(st, x.X.Type(), fc.val(x.X))
	case *ssa.Extract:
		fc.vals[x] = fc.val(x.Tuple).(TupleV)[x.Index]
	case *ssa.Field:
		fc.vals[x] = fc.val(x.X).(StructV).F[x.Field]
	case *ssa.FieldAddr:
		p, ok := fc.val(x.X).(PtrV)
		if !ok {
			unsup("FieldAddr on non-pointer value")
		}
		fc.nilCheck(st, p, x.Pos(), br)
		np := p
		np.Path = append(append([]int(nil), p.Path...), x.Field)
		fc.vals[x] = np
	case *ssa.IndexAddr:
		fc.vals[x] = br.indexAddr(st, x)
	case *ssa.Index:
		// array value or string indexing
		xv := fc.val(x.X)
		i := fc.toIndex(x.Index)
		switch s := xv.(type) {
		case SliceV: // string
			br.boundsCheck(st, i, s.Len, x.Pos(), x)
			fc.vals[x] = fc.load(st, fc.elemPtr(s, i, types.Typ[types.Uint8]), types.Typ[types.Uint8])
		case ArrV:
			at := x.X.Type().Underlying().(*types.Array)
			br.boundsCheck(st, i, bvlit(uint64(at.Len()), 64), x.Pos(), x)
			ts := make([]string, len(s.Leaves))
			for k, l := range s.Leaves {
				ts[k] = app("select", l, i)
			}
			fc.vals[x] = unflatten(at.Elem(), &ts)
		default:
			unsup("Index on %T", xv)
		}
	case *ssa.Slice:
		fc.vals[x] = br.sliceOp(st, x)
	case *ssa.MakeSlice:
		fc.vals[x] = br.makeSlice(st, x)
	case *ssa.Store:
		p, ok := fc.val(x.Addr).(PtrV)
		if !ok {
			unsup("store through non-pointer")
		}
		fc.nilCheck(st, p, x.Pos(), br)
		t := x.Val.Type()
		_, pt := pathNames(p.Root, p.Path)
		if p.Kind == PArr {
			pt = p.Root
		}
		v := fc.val(x.Val)
		if isUntypedNil(t) {
			v = zeroVal(pt)
		}
		if p.Kind == PElem {
			for _, wr := range br.writeRanges {
				if wr.li.blocks[b] && wr.ref == p.Ref {
					fc.oblige(st, and(app("bvsle", wr.lo, wr.hi), app("bvult", app("bvsub", p.Idx, wr.lo), app("bvsub", wr.hi, wr.lo))),
						br.prefix+fc.ordName(fmt.Sprintf("loop-modifies:%d", wr.li.ordinal), ""), "inv-keep", x.Pos(), "store stays inside the loop's modifies range")
				}
			}
		}
		fc.store(st, p, pt, fc.storable(pt, v))
	case *ssa.Phi:
		return
	case *ssa.TypeAssert:
		fc.vals[x] = br.typeAssert(st, x)
	case *ssa.Call:
		v := br.call(st, x, b, idx)
		if v != nil {
			fc.vals[x] = v
		}
	case *ssa.Go:
		fc.note("go statement at %s: the spawned call has no effect on the spawning function's state", fc.posStr(x.Pos()))
	case *ssa.MakeMap:
		fc.vals[x] = fc.makeMap(st, x.Type().Underlying().(*types.Map))
	case *ssa.MapUpdate:
		mt := x.Map.Type().Underlying().(*types.Map)
		m := fc.val(x.Map).(Scalar).T
		fc.obligeNoName(st, not(eq(m, "0")), br, "nil", x.Pos(), "assignment to entry in nil map")
		// execution continues past the store only when the map is not nil (a nil map panics)
		fc.assume(st, not(eq(m, "0")))
		fc.mapStore(st, m, mt, fc.val(x.Key), fc.storable(mt.Elem(), fc.val(x.Value)))
	case *ssa.Lookup:
		if mt, ok := x.X.Type().Underlying().(*types.Map); ok {
			m := fc.val(x.X).(Scalar).T
			present, v := fc.mapLookup(st, m, mt, fc.val(x.Index))
			if x.CommaOk {
				fc.vals[x] = TupleV{v, Scalar{present}}
			} else {
				fc.vals[x] = v
			}
		} else {
			s := fc.val(x.X).(SliceV)
			i := fc.toIndex(x.Index)
			br.boundsCheck(st, i, s.Len, x.Pos(), x)
			fc.vals[x] = fc.load(st, fc.elemPtr(s, i, types.Typ[types.Uint8]), types.Typ[types.Uint8])
		}
	case *ssa.MakeClosure:
		var bs []Val
		for _, b := range x.Bindings {
			bs = append(bs, fc.val(b))
		}
		fc.vals[x] = FuncV{Fn: x.Fn, Bindings: bs}
	case *ssa.MakeChan:
		fc.vals[x] = Scalar{fc.newRef(st, "chan")}
	case *ssa.Send:
		fc.note("channel send at %s: no effect in the model", fc.posStr(x.Pos()))
	case *ssa.Select:
		fc.note("select at %s: results unconstrained", fc.posStr(x.Pos()))
		fc.vals[x] = fc.freshTyped(st, x.Type(), "select")
		if tup, ok := fc.vals[x].(TupleV); ok && len(tup) > 0 {
			// the index of the case that fired (-1: default case of a non-blocking select)
			i := tup[0].(Scalar).T
			lo := int64(0)
			if !x.Blocking {
				lo = -1
			}
			fc.assume(st, and(app("bvsle", bvlit(uint64(lo), 64), i), app("bvslt", i, bvlit(uint64(len(x.States)), 64))))
		}
	case *ssa.Range, *ssa.Next:
		br.rangeNext(st, ins)
	case *ssa.SliceToArrayPointer:
		s := fc.val(x.X).(SliceV)
		unsupIf(true, "slice to array pointer conversion (%v)", s)
	default:
		unsup("instruction %T (%s)", ins, ins)
	}
}

func unsupIf(c bool, f string, a ...interface{}) {
	if c {
		unsup(f, a...)
	}
}

func insName(ins ssa.Instruction) string {
	if v, ok := ins.(ssa.Value); ok {
		return fmt.Sprintf("%T %s", ins, v.Name())
	}
	return fmt.Sprintf("%T", ins)
}

// storable converts register values to the form kept in the heap.
func (fc *FnCtx) storable(t types.Type, v Val) Val {
	if _, ok := t.Underlying().(*types.Signature); ok {
		if _, isF := v.(FuncV); isF {
			return Scalar{"0"}
		}
	}
	return v
}

func (fc *FnCtx) freshTyped(st *State, t types.Type, hint string) Val {
	v := fc.fresh(t, hint)
	fc.assume(st, fc.typeInv(st, t, v))
	return v
}

func (fc *FnCtx) toIndex(v ssa.Value) string {
	s := fc.val(v).(Scalar).T
	return toBV64(TV{Scalar{s}, v.Type()})
}

func (fc *FnCtx) obligeNoName(st *State, goal string, br *bodyRun, kind string, pos token.Pos, desc string) {
	fc.oblige(st, goal, br.prefix+fc.ordName(kind, ""), kind, pos, desc)
}

func (fc *FnCtx) nilCheck(st *State, p PtrV, pos token.Pos, br *bodyRun) {
	if p.Ref == "0" {
		fc.oblige(st, "false", br.prefix+fc.ordName("nil", ""), "nil", pos, "nil pointer dereference")
		return
	}
	if fc.knownNonNil[p.Ref] {
		return
	}
	if fc.quiet > 0 {
		// inside a helper executed in place nothing is checked, so nothing is learnt either
		return
	}
	fc.knownNonNil[p.Ref] = true
	fc.oblige(st, not(eq(p.Ref, "0")), br.prefix+fc.ordName("nil", ""), "nil", pos, "nil pointer dereference")
}

func (br *bodyRun) boundsCheck(st *State, i, n string, pos token.Pos, ins ssa.Instruction) {
	fc := br.fc
	txt := fc.srcText(br.fn, pos)
	goal := and(app("bvsle", bvlit(0, 64), i), app("bvslt", i, n))
	fc.oblige(st, goal, br.prefix+fc.ordName("bounds", txt), "bounds", pos, "index in range")
}

func (br *bodyRun) indexAddr(st *State, x *ssa.IndexAddr) Val {
	fc := br.fc
	i := fc.toIndex(x.Index)
	switch v := fc.val(x.X).(type) {
	case SliceV:
		et := x.X.Type().Underlying().(*types.Slice).Elem()
		br.boundsCheck(st, i, v.Len, x.Pos(), x)
		return PtrV{Kind: PElem, Ref: v.Ref, Idx: fc.smt.define("idx", bvsort(64), app("bvadd", v.Off, i)), Root: et}
	case PtrV:
		if v.Kind == PArr {
			at := v.Root.Underlying().(*types.Array)
			br.boundsCheck(st, i, bvlit(uint64(at.Len()), 64), x.Pos(), x)
			return PtrV{Kind: PElem, Ref: v.Ref, Idx: i, Root: at.Elem()}
		}
	}
	unsup("IndexAddr on %s", x.X.Type())
	return nil
}

func (br *bodyRun) sliceOp(st *State, x *ssa.Slice) Val {
	fc := br.fc
	var ref, off, ln, cp string
	isStr := false
	switch v := fc.val(x.X).(type) {
	case SliceV:
		ref, off, ln, cp = v.Ref, v.Off, v.Len, v.Cap
		if isString(x.X.Type()) {
			isStr = true
			cp = ln
		}
	case PtrV:
		if v.Kind != PArr {
			unsup("slice of pointer to non-array")
		}
		at := v.Root.Underlying().(*types.Array)
		n := bvlit(uint64(at.Len()), 64)
		ref, off, ln, cp = v.Ref, bvlit(0, 64), n, n
	default:
		unsup("slice of %T", v)
	}
	lo := bvlit(0, 64)
	if x.Low != nil {
		lo = fc.toIndex(x.Low)
	}
	hi := ln
	if x.High != nil {
		hi = fc.toIndex(x.High)
	}
	mx := cp
	if x.Max != nil {
		mx = fc.toIndex(x.Max)
	}
	txt := fc.srcText(br.fn, x.Pos())
	var goal string
	if x.Max != nil {
		goal = and(app("bvsle", bvlit(0, 64), lo), app("bvsle", lo, hi), app("bvsle", hi, mx), app("bvsle", mx, cp))
	} else {
		goal = and(app("bvsle", bvlit(0, 64), lo), app("bvsle", lo, hi), app("bvsle", hi, cp))
	}
	fc.oblige(st, goal, br.prefix+fc.ordName("bounds", txt), "bounds", x.Pos(), "slice bounds in range")
	nl := fc.smt.define("len", bvsort(64), app("bvsub", hi, lo))
	nc := fc.smt.define("cap", bvsort(64), app("bvsub", mx, lo))
	no := fc.smt.define("off", bvsort(64), app("bvadd", off, lo))
	if isStr {
		nc = nl
	}
	return SliceV{ref, no, nl, nc}
}

func (br *bodyRun) makeSlice(st *State, x *ssa.MakeSlice) Val {
	fc := br.fc
	et := x.Type().Underlying().(*types.Slice).Elem()
	n := fc.toIndex(x.Len)
	c := fc.toIndex(x.Cap)
	goal := and(app("bvsle", bvlit(0, 64), n), app("bvsle", n, c), app("bvsle", c, bvlit(1<<47, 64)))
	fc.oblige(st, goal, br.prefix+fc.ordName("makeslice", ""), "bounds", x.Pos(), "make: 0 <= len <= cap <= 2^47")
	return fc.newRegion(st, et, n, c, "make")
}

// newRegion allocates a zeroed region for elements of type et.
func (fc *FnCtx) newRegion(st *State, et types.Type, n, c string, hint string) SliceV {
	ref := fc.newRef(st, hint)
	for _, l := range leavesOf(et) {
		key := "elem|" + typeName(et) + l.Suffix
		h := fc.heapSym(st, key, arrSort(true, l.Sort))
		fc.setHeap(st, key, app("store", h, ref, zeroTerm("(Array (_ BitVec 64) "+l.Sort+")")))
	}
	return SliceV{ref, bvlit(0, 64), n, c}
}

func (br *bodyRun) binop(st *State, x *ssa.BinOp) Val {
	fc := br.fc
	a, b := fc.val(x.X), fc.val(x.Y)
	tx := x.X.Type()
	if isUntypedNil(tx) {
		tx = x.Y.Type()
		a = zeroVal(tx)
	}
	if isUntypedNil(x.Y.Type()) {
		b = zeroVal(tx)
	}
	switch x.Op {
	case token.EQL, token.NEQ:
		var t string
		if isString(tx) {
			t = fc.stringEq(st, a.(SliceV), b.(SliceV))
		} else if isFloat(tx) {
			t = fc.smt.declare("fcmp", "Bool")
		} else {
			t = eqVal(tx, a, b)
		}
		if x.Op == token.NEQ {
			t = not(t)
		}
		return Scalar{t}
	}
	if isFloat(tx) {
		if isBool(x.Type()) {
			return Scalar{fc.smt.declare("fcmp", "Bool")}
		}
		return Scalar{fc.smt.declare("fop", "F64")}
	}
	if isString(tx) {
		if x.Op == token.ADD {
			return fc.stringConcat(st, a.(SliceV), b.(SliceV))
		}
		unsup("string operator %s", x.Op)
	}
	if isBool(tx) {
		unsup("boolean operator %s", x.Op)
	}
	xa, xb := a.(Scalar).T, b.(Scalar).T
	w := intWidth(tx)
	uns := isUnsigned(tx)
	pick := func(u, s string) string {
		if uns {
			return u
		}
		return s
	}
	switch x.Op {
	case token.ADD:
		return Scalar{app("bvadd", xa, xb)}
	case token.SUB:
		return Scalar{app("bvsub", xa, xb)}
	case token.MUL:
		return Scalar{app("bvmul", xa, xb)}
	case token.QUO, token.REM:
		fc.oblige(st, not(eq(xb, bvlit(0, w))), br.prefix+fc.ordName("div0", ""), "div0", x.Pos(), "division by zero")
		if x.Op == token.QUO {
			return Scalar{app(pick("bvudiv", "bvsdiv"), xa, xb)}
		}
		return Scalar{app(pick("bvurem", "bvsrem"), xa, xb)}
	case token.AND:
		return Scalar{app("bvand", xa, xb)}
	case token.OR:
		return Scalar{app("bvor", xa, xb)}
	case token.XOR:
		return Scalar{app("bvxor", xa, xb)}
	case token.AND_NOT:
		return Scalar{app("bvand", xa, app("bvnot", xb))}
	case token.SHL, token.SHR:
		ct := x.Y.Type()
		if !isUnsigned(ct) {
			if _, isConst := x.Y.(*ssa.Const); !isConst {
				fc.oblige(st, app("bvsge", xb, bvlit(0, intWidth(ct))), br.prefix+fc.ordName("shift", ""), "bounds", x.Pos(), "negative shift count")
			}
		}
		return Scalar{shiftTerm(x.Op == token.SHL, xa, tx, TV{Scalar{xb}, ct})}
	case token.LSS:
		return Scalar{app(pick("bvult", "bvslt"), xa, xb)}
	case token.LEQ:
		return Scalar{app(pick("bvule", "bvsle"), xa, xb)}
	case token.GTR:
		return Scalar{app(pick("bvugt", "bvsgt"), xa, xb)}
	case token.GEQ:
		return Scalar{app(pick("bvuge", "bvsge"), xa, xb)}
	}
	unsup("binary operator %s", x.Op)
	return nil
}

func (br *bodyRun) unop(st *State, x *ssa.UnOp) Val {
	fc := br.fc
	switch x.Op {
	case token.MUL:
		p, ok := fc.val(x.X).(PtrV)
		if !ok {
			unsup("load through non-pointer %T", fc.val(x.X))
		}
		fc.nilCheck(st, p, x.Pos(), br)
		if g, ok := x.X.(*ssa.Global); ok {
			return fc.loadGlobal(st, g.Object(), p)
		}
		v := fc.load(st, p, x.Type())
		fc.assume(st, fc.typeInv(st, x.Type(), v))
		return fc.nameVal(x.Type(), v, x.Name())
	case token.NOT:
		return Scalar{not(fc.val(x.X).(Scalar).T)}
	case token.SUB:
		if isFloat(x.Type()) {
			return Scalar{fc.smt.declare("fneg", "F64")}
		}
		return Scalar{app("bvneg", fc.val(x.X).(Scalar).T)}
	case token.XOR:
		return Scalar{app("bvnot", fc.val(x.X).(Scalar).T)}
	case token.ARROW:
		fc.note("channel receive at %s: received value unconstrained", fc.posStr(x.Pos()))
		return fc.freshTyped(st, x.Type(), "recv")
	}
	unsup("unary operator %s", x.Op)
	return nil
}

func (br *bodyRun) convert(st *State, x *ssa.Convert) Val {
	fc := br.fc
	from, to := x.X.Type(), x.Type()
	v := fc.val(x.X)
	switch {
	case isInt(from) && isInt(to):
		return Scalar{convInt(v.(Scalar).T, from, to)}
	case isFloat(to):
		return Scalar{fc.smt.declare("tofloat", "F64")}
	case isFloat(from) && isInt(to):
		fc.note("float to integer conversion at %s: result unconstrained", fc.posStr(x.Pos()))
		return Scalar{fc.smt.declare("fromfloat", bvsort(intWidth(to)))}
	case isString(to) && isInt(from):
		unsup("string(rune) conversion")
	case isString(to) || isString(from):
		// string(bytes) / []byte(string): fresh region with copied content
		s := v.(SliceV)
		et := types.Typ[types.Uint8]
		r := fc.newRegion(st, et, s.Len, s.Len, "conv")
		fc.memcpy(st, et, r, bvlit(0, 64), s, bvlit(0, 64), s.Len)
		if isString(to) {
			return SliceV{r.Ref, r.Off, r.Len, r.Len}
		}
		// []byte("") of an empty string may be nil or not; keep the fresh region
		return r
	}
	if pt, ok := to.Underlying().(*types.Pointer); ok {
		// unsafe.Pointer -> *T : only the two byte-view idioms
		u, isU := v.(UnsafeV)
		unsupIf(!isU, "unsafe pointer conversion")
		if types.Identical(pt.Elem(), u.Elem) {
			return u.P
		}
		if b, isB := u.Elem.Underlying().(*types.Basic); isB && b.Kind() == types.Uint8 && u.P.Kind == PElem && len(u.P.Path) == 0 {
			// *byte -> *T for a flat struct T
			_, flat := flatLayout(pt.Elem())
			unsupIf(!flat, "unsafe view of bytes as %s", pt.Elem())
			return PtrV{Kind: PView, Ref: u.P.Ref, Idx: u.P.Idx, Root: pt.Elem()}
		}
		if at, isA := pt.Elem().Underlying().(*types.Array); isA && u.P.Kind != PView {
			if b, isB := at.Elem().Underlying().(*types.Basic); isB && b.Kind() == types.Uint8 {
				return fc.structAsBytes(st, u.P, u.Elem, at)
			}
		}
		unsup("unsafe pointer conversion %s -> %s", u.Elem, to)
	}
	if b, ok := to.Underlying().(*types.Basic); ok && b.Kind() == types.UnsafePointer {
		if p, isP := v.(PtrV); isP {
			if fp, isPtr := from.Underlying().(*types.Pointer); isPtr {
				return UnsafeV{P: p, Elem: fp.Elem()}
			}
		}
		unsup("unsafe pointer conversion")
	}
	unsup("conversion %s -> %s", from, to)
	return nil
}

// memcpy: dst[dOff+i] = src[sOff+i] for 0 <= i < n (offsets relative to the slices), with
// memmove semantics.
func (fc *FnCtx) memcpy(st *State, et types.Type, dst SliceV, dOff string, src SliceV, sOff string, n string) {
	if fc.views != nil {
		fc.viewRefresh(st, src.Ref)
		if _, ok := fc.views[dst.Ref]; ok {
			defer fc.viewWriteBack(st, dst.Ref)
		}
	}
	for _, l := range leavesOf(et) {
		key := "elem|" + typeName(et) + l.Suffix
		srt := arrSort(true, l.Sort)
		h := fc.heapSym(st, key, srt)
		srcArr := app("select", h, src.Ref)
		dstArr := app("select", h, dst.Ref)
		inner := "(Array (_ BitVec 64) " + l.Sort + ")"
		d0 := fc.smt.define("d0", bvsort(64), app("bvadd", dst.Off, dOff))
		s0 := fc.smt.define("s0", bvsort(64), app("bvadd", src.Off, sOff))
		var na string
		if k, ok := smallConst(n); ok && k <= 8 {
			na = dstArr
			for i := uint64(0); i < k; i++ {
				na = app("store", na, app("bvadd", d0, bvlit(i, 64)), app("select", srcArr, app("bvadd", s0, bvlit(i, 64))))
			}
		} else {
			na = fc.smt.declare("cpy", inner)
			srcN := fc.smt.defineAlways("cpysrc", inner, srcArr)
			dstN := fc.smt.defineAlways("cpydst", inner, dstArr)
			j := fc.smt.freshName("j")
			// d0 <= j < d0+n  written as  (j - d0) <u n  (n is a non-negative length)
			in := app("bvult", app("bvsub", j, d0), n)
			body := eq(app("select", na, j), ite(in, app("select", srcN, app("bvadd", s0, app("bvsub", j, d0))), app("select", dstN, j)))
			fc.smt.addExtra(na, fmt.Sprintf("(forall ((%s (_ BitVec 64))) (! %s :pattern ((select %s %s))))", j, body, na, j))
		}
		fc.setHeap(st, key, app("store", h, dst.Ref, na))
	}
}

func smallConst(t string) (uint64, bool) {
	if len(t) == 18 && t[:2] == "#x" {
		var v uint64
		if _, err := fmt.Sscanf(t[2:], "%x", &v); err == nil {
			return v, true
		}
	}
	return 0, false
}

func (fc *FnCtx) stringEq(st *State, a, b SliceV) string {
	if a.Len == bvlit(0, 64) {
		return eq(b.Len, bvlit(0, 64))
	}
	if b.Len == bvlit(0, 64) {
		return eq(a.Len, bvlit(0, 64))
	}
	et := types.Typ[types.Uint8]
	env := &SpecEnv{fc: fc, st: st}
	fa := FrozenV{fc.regionArr(st, a, et), a.Off, a.Len}
	fb := FrozenV{fc.regionArr(st, b, et), b.Off, b.Len}
	return env.contentEq(fa, fb)
}

func (fc *FnCtx) stringConcat(st *State, a, b SliceV) Val {
	et := types.Typ[types.Uint8]
	n := fc.smt.define("catlen", bvsort(64), app("bvadd", a.Len, b.Len))
	r := fc.newRegion(st, et, n, n, "cat")
	fc.memcpy(st, et, r, bvlit(0, 64), a, bvlit(0, 64), a.Len)
	fc.memcpy(st, et, r, a.Len, b, bvlit(0, 64), b.Len)
	return SliceV{r.Ref, r.Off, n, n}
}

func (fc *FnCtx) makeInterface(st *State, t types.Type, v Val) Val {
	tag := fc.eng.typeTag(t)
	switch x := v.(type) {
	case PtrV:
		if x.Kind == PObj && len(x.Path) == 0 {
			return IfaceV{tag, x.Ref}
		}
	case IfaceV:
		return x
	}
	// boxed value: immutable cell
	ref := fc.newRef(st, "box")
	p := PtrV{Kind: PObj, Ref: ref, Root: boxType(t)}
	defer func() { recover() }()
	fc.store(st, p, t, v)
	return IfaceV{tag, ref}
}

// boxType: boxed non-pointer values live in cells keyed by their type.
func boxType(t types.Type) types.Type { return t }

func (br *bodyRun) typeAssert(st *State, x *ssa.TypeAssert) Val {
	fc := br.fc
	iv := fc.val(x.X).(IfaceV)
	if _, isIface := x.AssertedType.Underlying().(*types.Interface); isIface {
		ok := fc.smt.declare("implements", "Bool")
		if x.CommaOk {
			res := IfaceV{ite(ok, iv.Tag, "0"), ite(ok, iv.Ref, "0")}
			return TupleV{res, Scalar{ok}}
		}
		fc.oblige(st, ok, br.prefix+fc.ordName("typeassert", ""), "typeassert", x.Pos(), "interface conversion")
		return iv
	}
	tag := fc.eng.typeTag(x.AssertedType)
	okT := eq(iv.Tag, tag)
	var v Val
	if pt, isPtr := x.AssertedType.Underlying().(*types.Pointer); isPtr {
		v = PtrV{Kind: PObj, Ref: iv.Ref, Root: pt.Elem()}
	} else {
		p := PtrV{Kind: PObj, Ref: iv.Ref, Root: boxType(x.AssertedType)}
		v = fc.load(st, p, x.AssertedType)
	}
	if x.CommaOk {
		return TupleV{iteVal(x.AssertedType, okT, v, zeroVal(x.AssertedType)), Scalar{okT}}
	}
	fc.oblige(st, okT, br.prefix+fc.ordName("typeassert", ""), "typeassert", x.Pos(), "type assertion")
	return v
}

// Range over a map: each step either ends the iteration or yields some key that is present in
// the map at that moment, with the value stored under it. Nothing is said about the order or
// about every key being visited (a sound abstraction of Go's map iteration).
func (br *bodyRun) rangeNext(st *State, ins ssa.Instruction) {
	fc := br.fc
	switch x := ins.(type) {
	case *ssa.Range:
		if _, ok := x.X.Type().Underlying().(*types.Map); !ok {
			unsup("range over string (%s)", ins)
		}
		fc.vals[x] = fc.val(x.X)
	case *ssa.Next:
		rg, ok := x.Iter.(*ssa.Range)
		if !ok || x.IsString {
			unsup("range over string (%s)", ins)
		}
		mt := rg.X.Type().Underlying().(*types.Map)
		m := fc.val(rg.X).(Scalar).T
		okT := fc.smt.declare("rngok", "Bool")
		k := fc.freshTyped(st, mt.Key(), "rngkey")
		present, v := fc.mapLookup(st, m, mt, k)
		fc.assume(st, implies(okT, present))
		fc.vals[x] = TupleV{Scalar{okT}, k, v}
	}
}
