package main

// Per-function verification context: SMT declarations, symbolic state, heap access.

import (
	"fmt"
	"go/token"
	"go/types"
	"regexp"
	"sort"
	"strings"

	"golang.org/x/tools/go/ssa"
)

type Decl struct {
	Name  string
	Text  string   // (declare-const ...) or (define-fun ...)
	Extra []string // assertions that characterise Name (included whenever Name is)
	deps  []string
}

type SMTCtx struct {
	decls  []*Decl
	byName map[string]*Decl
	n      int
	apps   map[string][]*OpaqueApp // opaque function name -> applications
	liteSlice bool
	inQuant   int // >0 while evaluating under a quantifier: terms may mention bound variables
}

type OpaqueApp struct {
	Fn    string
	Args  []string // flattened argument terms
	Term  string   // the application term
	Name  string   // the define-fun naming it
	ArgTV []TV
	Gen   int
}

func newSMTCtx() *SMTCtx {
	return &SMTCtx{byName: map[string]*Decl{}, apps: map[string][]*OpaqueApp{}}
}

var sanitizeRe = regexp.MustCompile(`[^A-Za-z0-9_]`)

func (c *SMTCtx) freshName(hint string) string {
	c.n++
	h := sanitizeRe.ReplaceAllString(hint, "_")
	if len(h) > 24 {
		h = h[:24]
	}
	return fmt.Sprintf("%s!%d", h, c.n)
}

func (c *SMTCtx) declare(hint, sort string) string {
	n := c.freshName(hint)
	d := &Decl{Name: n, Text: fmt.Sprintf("(declare-const %s %s)", n, sort)}
	c.decls = append(c.decls, d)
	c.byName[n] = d
	return n
}

// define names a term; short terms are returned as they are.
func (c *SMTCtx) define(hint, sort, term string) string {
	if c.inQuant > 0 {
		return term
	}
	if len(term) < 48 && !strings.Contains(term, "ite") {
		return term
	}
	return c.defineAlways(hint, sort, term)
}

func (c *SMTCtx) defineAlways(hint, sort, term string) string {
	n := c.freshName(hint)
	d := &Decl{Name: n, Text: fmt.Sprintf("(define-fun %s () %s %s)", n, sort, term)}
	c.decls = append(c.decls, d)
	c.byName[n] = d
	return n
}

func (c *SMTCtx) addExtra(name, assertion string) {
	if d := c.byName[name]; d != nil {
		d.Extra = append(d.Extra, assertion)
		d.deps = nil
		return
	}
	panic("addExtra: unknown name " + name)
}

var identRe = regexp.MustCompile(`[A-Za-z_][A-Za-z0-9_]*![0-9]+`)

func (d *Decl) getDeps() []string {
	if d.deps == nil {
		seen := map[string]bool{}
		for _, t := range append([]string{d.Text}, d.Extra...) {
			for _, id := range identRe.FindAllString(t, -1) {
				if id != d.Name && !seen[id] {
					seen[id] = true
					d.deps = append(d.deps, id)
				}
			}
		}
		if d.deps == nil {
			d.deps = []string{}
		}
	}
	return d.deps
}

// slice returns the declarations (in order) needed by the given terms.
func (c *SMTCtx) slice(terms ...string) string {
	need := map[string]bool{}
	var work []string
	for _, t := range terms {
		for _, id := range identRe.FindAllString(t, -1) {
			if !need[id] {
				need[id] = true
				work = append(work, id)
			}
		}
	}
	for len(work) > 0 {
		id := work[len(work)-1]
		work = work[:len(work)-1]
		d := c.byName[id]
		if d == nil {
			continue
		}
		for _, dep := range d.getDeps() {
			if !need[dep] {
				need[dep] = true
				work = append(work, dep)
			}
		}
	}
	var b strings.Builder
	var extras []string
	for _, d := range c.decls {
		if need[d.Name] {
			b.WriteString(d.Text)
			b.WriteByte('\n')
			extras = append(extras, d.Extra...)
		}
	}
	for _, e := range extras {
		if c.liteSlice && (strings.Contains(e, "(forall") || strings.Contains(e, "(exists")) {
			continue
		}
		b.WriteString("(assert " + e + ")\n")
	}
	return b.String()
}

// ---------------------------------------------------------------------------------------

type State struct {
	guard string
	lite  string // guard without quantified assumptions (fast path, and selector at joins)
	heap  map[string]string
	alloc string
	base  int // keys absent from heap resolve to the symbol of (base, key); base 0 = function entry
}

func (s *State) clone() *State {
	n := &State{guard: s.guard, lite: s.lite, alloc: s.alloc, base: s.base, heap: make(map[string]string, len(s.heap))}
	for k, v := range s.heap {
		n.heap[k] = v
	}
	return n
}

type Obligation struct {
	Name    string
	Kind    string
	Fn      string
	Pos     string
	Desc    string
	Guard   string
	Goal    string
	Expect  string // "unsat" (proof) or "sat" (cover)
	Query   string
	QueryLite string
	Props   []string
	Result  SolverResult
	Light   bool
	Replay  *ReplayInfo
	Clause  *Expr
}

type ReplayInfo struct {
	Kind   string // "post", "panic"
	Inputs map[string]string
}

type FnCtx struct {
	eng     *Engine
	fn      *ssa.Function
	ct      *Contract
	smt     *SMTCtx
	vals    map[ssa.Value]Val
	heap0   map[string]string // initial symbol per key
	keySort map[string]string
	pre     *State
	obs     []*Obligation
	counts  map[string]int
	touched map[string]bool // heap keys written in this function
	quiet   int // > 0 while a contract-less helper is executed in place: no safety obligations
	views   map[string]viewInfo // byte regions that mirror a flat struct (unsafe views), by region ref
	notes   map[string]bool // abstractions / assumptions reached
	light   bool
	depth   int
	deferred []*deferRec
	results []Val // at the current return
	paramTV map[string]TV
	loopHeads map[*ssa.BasicBlock]*loopInfo
	allocs0 string
	curPos  token.Pos
	callOrd map[string]int
	retStates []*State
	nbase int
	havocedAll bool
	knownNonNil map[string]bool
	curSt *State
	usedNames map[string]int
	curClause *Expr
	baseAlloc map[int]string
	boundNames []string
	assertHit map[*Clause]int
	strAssumed map[string]bool
	pairCache map[string]string
	splitHints [][3]string
}

type deferRec struct {
	instr *ssa.Defer
	flag  string // heap key of the Bool flag
}

func (fc *FnCtx) note(f string, a ...interface{}) { fc.notes[fmt.Sprintf(f, a...)] = true }

func (fc *FnCtx) fresh(t types.Type, hint string) Val {
	ls := leavesOf(t)
	ts := make([]string, len(ls))
	for i, l := range ls {
		ts[i] = fc.smt.declare(hint+l.Suffix, l.Sort)
	}
	return unflatten(t, &ts)
}

// typeInv: facts the Go runtime guarantees for any value of type t that already exists.
func (fc *FnCtx) typeInv(st *State, t types.Type, v Val) string {
	switch u := t.Underlying().(type) {
	case *types.Slice:
		s := v.(SliceV)
		return and(
			app("bvsle", bvlit(0, 64), s.Off), app("bvsle", bvlit(0, 64), s.Len), app("bvsle", s.Len, s.Cap),
			app("bvsle", s.Cap, bvlit(1<<46, 64)), app("bvsle", s.Off, bvlit(1<<46, 64)),
			app("<=", "0", s.Ref), app("<=", s.Ref, st.alloc),
			implies(eq(s.Ref, "0"), and(eq(s.Cap, bvlit(0, 64)), eq(s.Off, bvlit(0, 64)))))
	case *types.Basic:
		if isString(t) {
			s := v.(SliceV)
			return and(app("bvsle", bvlit(0, 64), s.Off), app("bvsle", bvlit(0, 64), s.Len),
				app("bvsle", s.Len, bvlit(1<<46, 64)), app("bvsle", s.Off, bvlit(1<<46, 64)),
				app("<=", s.Ref, st.alloc))
		}
	case *types.Pointer:
		if p, ok := v.(PtrV); ok {
			return app("<=", p.Ref, st.alloc)
		}
	case *types.Map, *types.Chan:
		return app("<=", v.(Scalar).T, st.alloc)
	case *types.Interface:
		i := v.(IfaceV)
		return and(app("<=", i.Ref, st.alloc), app("<=", "0", i.Tag), implies(eq(i.Tag, "0"), eq(i.Ref, "0")))
	case *types.Struct:
		sv := v.(StructV)
		var cs []string
		for i := 0; i < u.NumFields(); i++ {
			cs = append(cs, fc.typeInv(st, u.Field(i).Type(), sv.F[i]))
		}
		return and(cs...)
	case *types.Tuple:
		tv := v.(TupleV)
		var cs []string
		for i := 0; i < u.Len(); i++ {
			cs = append(cs, fc.typeInv(st, u.At(i).Type(), tv[i]))
		}
		return and(cs...)
	}
	return "true"
}

func (fc *FnCtx) assume(st *State, p string) {
	if p == "true" {
		return
	}
	st.guard = fc.smt.defineAlways("g", "Bool", and(st.guard, p))
	if q := dropQuantified(p); q != "true" {
		st.lite = fc.smt.defineAlways("gl", "Bool", and(st.liteG(), q))
	}
}

func (s *State) liteG() string {
	if s.lite == "" {
		return "true"
	}
	return s.lite
}

// dropQuantified removes the top-level conjuncts of p that contain a quantifier.
func dropQuantified(p string) string {
	if !strings.Contains(p, "(forall") && !strings.Contains(p, "(exists") {
		return p
	}
	if !strings.HasPrefix(p, "(and ") {
		return "true"
	}
	var parts []string
	d, start := 0, 5
	for i := 5; i < len(p)-1; i++ {
		switch p[i] {
		case '(':
			d++
		case ')':
			d--
		case ' ':
			if d == 0 {
				parts = append(parts, p[start:i])
				start = i + 1
			}
		}
	}
	parts = append(parts, p[start:len(p)-1])
	var keep []string
	for _, x := range parts {
		if x != "" {
			keep = append(keep, dropQuantified(x))
		}
	}
	return and(keep...)
}

// ---------------------------------------------------------------------------------------
// heap

func (fc *FnCtx) heapSym(st *State, key, sort string) string {
	if t, ok := st.heap[key]; ok {
		return t
	}
	fc.keySort[key] = sort
	base := st.base
	if fc.isStableKey(key) {
		base = 0
	}
	bk := fmt.Sprintf("%d|%s", base, key)
	if t, ok := fc.heap0[bk]; ok {
		return t
	}
	t := fc.smt.declare("H_"+key, sort)
	fc.heap0[bk] = t
	fc.refBound(t, key, sort, fc.baseAlloc[base])
	return t
}

// havocAll forgets everything about the heap except stable keys.
// keepLocals saves the content of the locals whose address never leaves the function (go/ssa:
// Alloc.Heap == false; only direct loads and stores), which no callee can reach, and returns a
// function that writes it back after a havoc.
func (fc *FnCtx) keepLocals(st *State) func() {
	type kept struct {
		p PtrV
		t types.Type
		v Val
	}
	var keep []kept
	for sv, v := range fc.vals {
		a, ok := sv.(*ssa.Alloc)
		if !ok || a.Heap {
			continue
		}
		p, ok := v.(PtrV)
		if !ok || len(p.Path) != 0 || (p.Kind != PObj && p.Kind != PArr) {
			continue
		}
		t := a.Type().Underlying().(*types.Pointer).Elem()
		func() {
			defer func() { recover() }()
			keep = append(keep, kept{p, t, fc.load(st, p, t)})
		}()
	}
	sort.Slice(keep, func(i, j int) bool { return keep[i].p.Ref < keep[j].p.Ref })
	return func() {
		for _, k := range keep {
			func() {
				defer func() { recover() }()
				fc.store(st, k.p, k.t, k.v)
			}()
		}
	}
}

func (fc *FnCtx) havocAll(st *State) {
	// Locals whose address never leaves the function (go/ssa: Alloc.Heap == false; only direct
	// loads and stores) cannot be reached by any callee: they keep their value.
	type kept struct {
		p PtrV
		t types.Type
		v Val
	}
	var keep []kept
	for sv, v := range fc.vals {
		a, ok := sv.(*ssa.Alloc)
		if !ok || a.Heap {
			continue
		}
		p, ok := v.(PtrV)
		if !ok || len(p.Path) != 0 || (p.Kind != PObj && p.Kind != PArr) {
			continue
		}
		t := a.Type().Underlying().(*types.Pointer).Elem()
		func() {
			defer func() { recover() }()
			keep = append(keep, kept{p, t, fc.load(st, p, t)})
		}()
	}
	sort.Slice(keep, func(i, j int) bool { return keep[i].p.Ref < keep[j].p.Ref })
	defer func() {
		for _, k := range keep {
			func() {
				defer func() { recover() }()
				fc.store(st, k.p, k.t, k.v)
			}()
		}
	}()
	fc.nbase++
	na := fc.smt.declare("alloc", "Int")
	fc.assume(st, app(">=", na, st.alloc))
	st.alloc = na
	fc.baseAlloc[fc.nbase] = na
	nh := map[string]string{}
	for k, v := range st.heap {
		if fc.isStableKey(k) || strings.HasPrefix(k, "defer|") || strings.HasPrefix(k, "called|") {
			nh[k] = v
		}
	}
	st.heap = nh
	st.base = fc.nbase
	fc.havocedAll = true
}

func pathNames(root types.Type, path []int) (string, types.Type) {
	t := root
	var sb strings.Builder
	for _, i := range path {
		st, ok := t.Underlying().(*types.Struct)
		if !ok {
			unsup("field path through non-struct %s", t)
		}
		sb.WriteString("." + st.Field(i).Name())
		t = st.Field(i).Type()
	}
	return sb.String(), t
}

// keyBase returns the heap key prefix and index sorts for the location p points to.
func keyBase(p PtrV) (prefix string, elem bool) {
	names, _ := pathNames(p.Root, p.Path)
	switch p.Kind {
	case PObj:
		if _, ok := p.Root.Underlying().(*types.Struct); ok {
			return "fld|" + typeName(p.Root) + names, false
		}
		return "cell|" + typeName(p.Root), false
	case PElem:
		return "elem|" + typeName(p.Root) + names, true
	}
	unsup("keyBase: pointer kind %d", p.Kind)
	return "", false
}

func arrSort(elem bool, leaf string) string {
	if elem {
		return "(Array Int (Array (_ BitVec 64) " + leaf + "))"
	}
	return "(Array Int " + leaf + ")"
}

func (fc *FnCtx) load(st *State, p PtrV, t types.Type) Val {
	if p.Kind == PView {
		return fc.viewLoad(st, p, t)
	}
	if p.Kind == PElem && fc.views != nil {
		fc.viewRefresh(st, p.Ref)
	}
	if p.Kind == PArr {
		// whole array value
		at := t.Underlying().(*types.Array)
		var a ArrV
		for _, l := range leavesOf(at.Elem()) {
			key := "elem|" + typeName(at.Elem()) + l.Suffix
			h := fc.heapSym(st, key, arrSort(true, l.Sort))
			a.Leaves = append(a.Leaves, app("select", h, p.Ref))
		}
		return a
	}
	prefix, elem := keyBase(p)
	ls := leavesOf(t)
	ts := make([]string, len(ls))
	for i, l := range ls {
		key := prefix + l.Suffix
		h := fc.heapSym(st, key, arrSort(elem, l.Sort))
		if elem {
			ts[i] = app("select", app("select", h, p.Ref), p.Idx)
		} else {
			ts[i] = app("select", h, p.Ref)
		}
	}
	v := unflatten(t, &ts)
	return fc.wellTyped(t, v)
}

// wellTyped attaches the state-independent representation invariants of slices and strings
// to values read from the heap (Go's memory safety guarantees them for every stored value).
func (fc *FnCtx) wellTyped(t types.Type, v Val) Val {
	if len(fc.boundNames) > 0 {
		// under a quantifier the value may mention bound variables and cannot be named
		return v
	}
	switch u := t.Underlying().(type) {
	case *types.Slice:
		s := v.(SliceV)
		s.Ref = fc.smt.defineAlways("ld_ref", "Int", s.Ref)
		s.Off = fc.smt.defineAlways("ld_off", bvsort(64), s.Off)
		s.Len = fc.smt.defineAlways("ld_len", bvsort(64), s.Len)
		s.Cap = fc.smt.defineAlways("ld_cap", bvsort(64), s.Cap)
		fc.smt.addExtra(s.Len, and(
			app("bvsle", bvlit(0, 64), s.Off), app("bvsle", bvlit(0, 64), s.Len), app("bvsle", s.Len, s.Cap),
			app("bvsle", s.Cap, bvlit(1<<46, 64)), app("bvsle", s.Off, bvlit(1<<46, 64)), app("<=", "0", s.Ref),
			implies(eq(s.Ref, "0"), and(eq(s.Cap, bvlit(0, 64)), eq(s.Off, bvlit(0, 64))))))
		return s
	case *types.Basic:
		if isString(t) {
			s := v.(SliceV)
			s.Off = fc.smt.defineAlways("ld_off", bvsort(64), s.Off)
			s.Len = fc.smt.defineAlways("ld_len", bvsort(64), s.Len)
			s.Cap = s.Len
			fc.smt.addExtra(s.Len, and(app("bvsle", bvlit(0, 64), s.Off), app("bvsle", bvlit(0, 64), s.Len),
				app("bvsle", s.Len, bvlit(1<<46, 64)), app("bvsle", s.Off, bvlit(1<<46, 64))))
			return s
		}
	case *types.Struct:
		sv := v.(StructV)
		out := StructV{F: make([]Val, len(sv.F))}
		for i := range sv.F {
			out.F[i] = fc.wellTyped(u.Field(i).Type(), sv.F[i])
		}
		return out
	}
	return v
}

func (fc *FnCtx) store(st *State, p PtrV, t types.Type, v Val) {
	if p.Kind == PView {
		fc.viewStore(st, p, t, v)
		return
	}
	if p.Kind == PElem && fc.views != nil {
		if _, ok := fc.views[p.Ref]; ok {
			defer fc.viewWriteBack(st, p.Ref)
		}
	}
	if p.Kind == PArr {
		at := t.Underlying().(*types.Array)
		av := v.(ArrV)
		for i, l := range leavesOf(at.Elem()) {
			key := "elem|" + typeName(at.Elem()) + l.Suffix
			h := fc.heapSym(st, key, arrSort(true, l.Sort))
			fc.setHeap(st, key, app("store", h, p.Ref, av.Leaves[i]))
		}
		return
	}
	prefix, elem := keyBase(p)
	ls := leavesOf(t)
	ts := flatten(t, v)
	for i, l := range ls {
		key := prefix + l.Suffix
		h := fc.heapSym(st, key, arrSort(elem, l.Sort))
		var nh string
		if elem {
			nh = app("store", h, p.Ref, app("store", app("select", h, p.Ref), p.Idx, ts[i]))
		} else {
			nh = app("store", h, p.Ref, ts[i])
		}
		fc.setHeap(st, key, nh)
	}
}

func (fc *FnCtx) setHeap(st *State, key, term string) {
	fc.touched[key] = true
	st.heap[key] = fc.smt.defineAlways("H_"+key, fc.keySort[key], term)
}

// elemRead reads element idx (BV64, relative to the slice) of slice s with element type et.
func (fc *FnCtx) elemPtr(s SliceV, idx string, et types.Type) PtrV {
	return PtrV{Kind: PElem, Ref: s.Ref, Idx: app("bvadd", s.Off, idx), Root: et}
}

// byteArr returns the SMT array (BV64 -> leaf) holding the region of a slice of scalars.
func (fc *FnCtx) regionArr(st *State, s SliceV, et types.Type) string {
	ls := leavesOf(et)
	if len(ls) != 1 {
		unsup("regionArr on composite element type %s", et)
	}
	key := "elem|" + typeName(et) + ls[0].Suffix
	h := fc.heapSym(st, key, arrSort(true, ls[0].Sort))
	return app("select", h, s.Ref)
}

// newRef allocates a fresh reference.
func (fc *FnCtx) newRef(st *State, hint string) string {
	r := fc.smt.declare(hint, "Int")
	fc.assume(st, app(">", r, st.alloc))
	st.alloc = r
	return r
}

func (fc *FnCtx) havocKey(st *State, key, sort string) {
	if fc.isStableKey(key) {
		return
	}
	fc.keySort[key] = sort
	st.heap[key] = fc.smt.declare("H_"+key, sort)
	fc.refBound(st.heap[key], key, sort, st.alloc)
}

func (fc *FnCtx) sortedKeys() []string {
	var ks []string
	for k := range fc.keySort {
		ks = append(ks, k)
	}
	sort.Strings(ks)
	return ks
}

func (fc *FnCtx) isStableKey(key string) bool {
	if strings.HasPrefix(key, "glob|") {
		return true
	}
	for s := range fc.eng.cs.Stable {
		if strings.HasPrefix(key, "fld|"+s) {
			rest := key[len("fld|"+s):]
			if rest == "" || rest[0] == '.' || rest[0] == '#' {
				return true
			}
		}
	}
	return false
}

func (fc *FnCtx) posStr(p token.Pos) string {
	if !p.IsValid() {
		p = fc.curPos
	}
	if !p.IsValid() {
		return "?"
	}
	pos := fc.eng.fset.Position(p)
	return fmt.Sprintf("%s:%d", strings.TrimPrefix(pos.Filename, fc.eng.repo+"/"), pos.Line)
}

// isStablePath: the location p points to lies inside a field declared stable.
func (fc *FnCtx) isStablePath(p PtrV) bool {
	defer func() { recover() }()
	prefix, _ := keyBase(p)
	return fc.isStableKey(prefix)
}
