package main

// Evaluation of contract expressions to symbolic values.

import (
	"fmt"
	"go/constant"
	"go/types"
	"math/big"
	"sort"
	"strings"
)

type TV struct {
	V Val
	T types.Type // nil for untyped constants
}

// FrozenV: the content of a slice captured in one heap state (Arr: BV64 -> leaf).
type FrozenV struct{ Arr, Off, Len string }

type SpecEnv struct {
	fc      *FnCtx
	vars    map[string]TV
	st      *State
	old     *State
	pkg     *types.Package
	resolve func(name string) (TV, bool)
	oldResolve func(name string) (TV, bool)
	resolveRet func(site string) (TV, bool)
	resolveAtLoop func(name string) (TV, bool)
	hyp     bool // evaluating a hypothesis (affects nothing semantically; used for diagnostics)
	depth   int
	transparent bool // reveal every opaque spec function (used when proving lemmas)
	bound   []string // SMT names of the variables bound by enclosing quantifiers
	alias   map[string]string // renamed identifiers of the function the clause belongs to (g_alias.go)
	cells   map[string]cellRef // variables captured by reference (a closure's free variables): read from the state the expression is evaluated in
}

type cellRef struct {
	p PtrV
	t types.Type
}

func (env *SpecEnv) with(name string, tv TV) *SpecEnv {
	n := *env
	n.vars = make(map[string]TV, len(env.vars)+1)
	for k, v := range env.vars {
		n.vars[k] = v
	}
	n.vars[name] = tv
	return &n
}

func (env *SpecEnv) inState(st *State) *SpecEnv {
	n := *env
	n.st = st
	return &n
}

type specErr string

func sfail(f string, a ...interface{}) { panic(specErr(fmt.Sprintf(f, a...))) }

var basicTypes = map[string]types.Type{
	"int": types.Typ[types.Int], "int8": types.Typ[types.Int8], "int16": types.Typ[types.Int16],
	"int32": types.Typ[types.Int32], "int64": types.Typ[types.Int64], "uint": types.Typ[types.Uint],
	"uint8": types.Typ[types.Uint8], "byte": types.Typ[types.Uint8], "uint16": types.Typ[types.Uint16],
	"uint32": types.Typ[types.Uint32], "uint64": types.Typ[types.Uint64], "uintptr": types.Typ[types.Uintptr],
	"bool": types.Typ[types.Bool], "string": types.Typ[types.String], "rune": types.Typ[types.Int32],
	"error": types.Universe.Lookup("error").Type(),
}

func (env *SpecEnv) lookupPkg(name string) *types.Package {
	if env.pkg == nil {
		return nil
	}
	if env.pkg.Name() == name {
		return env.pkg
	}
	for _, imp := range env.pkg.Imports() {
		if imp.Name() == name {
			return imp
		}
	}
	// search all loaded packages by name
	if p := env.fc.eng.pkgByName[name]; p != nil {
		return p
	}
	return nil
}

func (env *SpecEnv) resolveType(te *TypeExpr) types.Type {
	switch te.K {
	case "slice":
		return types.NewSlice(env.resolveType(te.Elem))
	case "ptr":
		return types.NewPointer(env.resolveType(te.Elem))
	case "map":
		return types.NewMap(env.resolveType(te.Key), env.resolveType(te.Elem))
	}
	if t, ok := basicTypes[te.Name]; ok {
		return t
	}
	name := te.Name
	pkg := env.pkg
	if i := strings.Index(name, "."); i >= 0 {
		pkg = env.lookupPkg(name[:i])
		name = name[i+1:]
		if pkg == nil {
			sfail("unknown package in type %s", te.Name)
		}
	}
	if pkg != nil {
		if o := pkg.Scope().Lookup(name); o != nil {
			if tn, ok := o.(*types.TypeName); ok {
				return tn.Type()
			}
		}
	}
	sfail("unknown type %s", te.Name)
	return nil
}

func (env *SpecEnv) tryType(e *Expr) (types.Type, bool) {
	switch e.K {
	case "typ":
		return env.resolveType(e.Type), true
	case "id":
		if _, ok := env.vars[e.Name]; ok {
			return nil, false
		}
		if t, ok := basicTypes[e.Name]; ok {
			return t, true
		}
		if env.pkg != nil {
			if o := env.pkg.Scope().Lookup(e.Name); o != nil {
				if tn, ok := o.(*types.TypeName); ok {
					return tn.Type(), true
				}
			}
		}
	case "sel":
		if e.X[0].K == "id" {
			if p := env.lookupPkg(e.X[0].Name); p != nil {
				if _, shadow := env.vars[e.X[0].Name]; !shadow {
					if o := p.Scope().Lookup(e.Name); o != nil {
						if tn, ok := o.(*types.TypeName); ok {
							return tn.Type(), true
						}
					}
				}
			}
		}
	case "un":
		if e.Op == "*" {
			if t, ok := env.tryType(e.X[0]); ok {
				return types.NewPointer(t), true
			}
		}
	}
	return nil, false
}

func boolTV(t string) TV { return TV{Scalar{t}, types.Typ[types.Bool]} }

func (env *SpecEnv) evalBool(e *Expr) string {
	tv := env.eval(e)
	s, ok := tv.V.(Scalar)
	if !ok || tv.T == nil || !isBool(tv.T) {
		sfail("expected a boolean: %s", e)
	}
	return s.T
}

func constToTV(v constant.Value, t types.Type) TV {
	if b, ok := t.Underlying().(*types.Basic); ok && b.Info()&types.IsUntyped != 0 {
		if v.Kind() == constant.Int {
			return TV{UntypedConst{v.ExactString()}, nil}
		}
		if v.Kind() == constant.Bool {
			return boolTV(fmt.Sprint(constant.BoolVal(v)))
		}
	}
	switch {
	case isInt(t):
		bi, _ := new(big.Int).SetString(v.ExactString(), 10)
		return TV{Scalar{bigToBV(bi, intWidth(t))}, t}
	case isBool(t):
		return TV{Scalar{fmt.Sprint(constant.BoolVal(v))}, t}
	}
	sfail("constant of type %s not supported in specifications", t)
	return TV{}
}

func bigToBV(bi *big.Int, w int) string {
	m := new(big.Int).Lsh(big.NewInt(1), uint(w))
	x := new(big.Int).Mod(bi, m)
	return bvlit(x.Uint64(), w)
}

// coerce gives an untyped constant the type t.
func coerce(tv TV, t types.Type) TV {
	if u, ok := tv.V.(UntypedConst); ok {
		bi, _ := new(big.Int).SetString(u.V, 10)
		if !isInt(t) {
			sfail("untyped constant %s used as %s", u.V, t)
		}
		return TV{Scalar{bigToBV(bi, intWidth(t))}, t}
	}
	return tv
}

func defaultType(tv TV) TV {
	if _, ok := tv.V.(UntypedConst); ok {
		return coerce(tv, types.Typ[types.Int])
	}
	return tv
}

func (env *SpecEnv) eval(e *Expr) TV {
	fc := env.fc
	switch e.K {
	case "num":
		bi, ok := new(big.Int).SetString(e.Name, 0)
		if !ok {
			sfail("bad number %s", e.Name)
		}
		return TV{UntypedConst{bi.String()}, nil}
	case "str":
		return env.stringLit(e.Name)
	case "id":
		return env.evalIdent(e.Name)
	case "tern":
		c := env.evalBool(e.X[0])
		a, b := env.eval(e.X[1]), env.eval(e.X[2])
		a, b = unify(a, b)
		return TV{iteVal(a.T, c, a.V, b.V), a.T}
	case "quant":
		return env.evalQuant(e)
	case "un":
		return env.evalUnary(e)
	case "bin":
		return env.evalBinary(e)
	case "sel":
		return env.evalSel(e)
	case "index":
		x := env.eval(e.X[0])
		if mt, ok := x.T.Underlying().(*types.Map); ok {
			k := coerce(env.eval(e.X[1]), mt.Key())
			_, v := fc.mapLookup(env.st, x.V.(Scalar).T, mt, k.V)
			return TV{v, mt.Elem()}
		}
		i := coerce(env.eval(e.X[1]), types.Typ[types.Int])
		idx := toBV64(i)
		return env.indexVal(x, idx)
	case "slice":
		x := env.eval(e.X[0])
		lo := bvlit(0, 64)
		if e.X[1] != nil {
			lo = toBV64(coerce(env.eval(e.X[1]), types.Typ[types.Int]))
		}
		switch s := x.V.(type) {
		case SliceV:
			hi := s.Len
			if e.X[2] != nil {
				hi = toBV64(coerce(env.eval(e.X[2]), types.Typ[types.Int]))
			}
			return TV{SliceV{s.Ref, app("bvadd", s.Off, lo), app("bvsub", hi, lo), app("bvsub", s.Cap, lo)}, x.T}
		case FrozenV:
			hi := s.Len
			if e.X[2] != nil {
				hi = toBV64(coerce(env.eval(e.X[2]), types.Typ[types.Int]))
			}
			return TV{FrozenV{s.Arr, app("bvadd", s.Off, lo), app("bvsub", hi, lo)}, x.T}
		}
		sfail("cannot slice %s", e.X[0])
	case "call":
		return env.evalCall(e)
	case "typ":
		sfail("type used as value: %s", e)
	}
	sfail("cannot evaluate %s", e)
	return TV{}
}

func toBV64(tv TV) string {
	s, ok := tv.V.(Scalar)
	if !ok {
		sfail("expected an integer")
	}
	w := intWidth(tv.T)
	if w == 64 {
		return s.T
	}
	if isUnsigned(tv.T) {
		return fmt.Sprintf("((_ zero_extend %d) %s)", 64-w, s.T)
	}
	return fmt.Sprintf("((_ sign_extend %d) %s)", 64-w, s.T)
}

func elemType(t types.Type) types.Type {
	switch u := t.Underlying().(type) {
	case *types.Slice:
		return u.Elem()
	case *types.Array:
		return u.Elem()
	case *types.Basic:
		if isString(t) {
			return types.Typ[types.Uint8]
		}
	case *types.Pointer:
		if a, ok := u.Elem().Underlying().(*types.Array); ok {
			return a.Elem()
		}
	}
	sfail("type %s has no elements", t)
	return nil
}

func (env *SpecEnv) indexVal(x TV, idx string) TV {
	et := elemType(x.T)
	switch s := x.V.(type) {
	case SliceV:
		return TV{env.fc.load(env.st, env.fc.elemPtr(s, idx, et), et), et}
	case FrozenV:
		ts := []string{app("select", s.Arr, app("bvadd", s.Off, idx))}
		return TV{unflatten(et, &ts), et}
	case ArrV:
		ts := make([]string, len(s.Leaves))
		for i, l := range s.Leaves {
			ts[i] = app("select", l, idx)
		}
		return TV{unflatten(et, &ts), et}
	case PtrV:
		if s.Kind == PArr {
			return TV{env.fc.load(env.st, PtrV{Kind: PElem, Ref: s.Ref, Idx: idx, Root: et}, et), et}
		}
	}
	sfail("cannot index value of type %s", x.T)
	return TV{}
}

func (env *SpecEnv) stringLit(s string) TV {
	fc := env.fc
	return TV{fc.eng.stringConst(fc, s), types.Typ[types.String]}
}

func (env *SpecEnv) evalIdent(name string) TV {
	if tv, ok := env.vars[name]; ok {
		return tv
	}
	if c, ok := env.cells[name]; ok {
		return TV{env.fc.load(env.st, c.p, c.t), c.t}
	}
	switch name {
	case "true", "false":
		return boolTV(name)
	case "nil":
		return TV{Scalar{"0"}, types.Typ[types.UntypedNil]}
	}
	if name == "now" {
		if _, shadowed := func() (TV, bool) {
			if env.resolve != nil {
				return env.resolve(name)
			}
			return TV{}, false
		}(); !shadowed {
			// ghost: the last value returned by time.Now().Unix() (unconstrained clock)
			return TV{Scalar{env.fc.heapSym(env.st, "ghost|now", "(_ BitVec 64)")}, types.Typ[types.Int64]}
		}
	}
	if env.resolve != nil {
		if tv, ok := env.resolve(name); ok {
			return tv
		}
	}
	if a, ok := env.alias[name]; ok && a != name {
		// the function no longer declares this name; the identifier that took its place
		env.fc.note("contract name %q resolved to the renamed identifier %q", name, a)
		n := *env
		n.alias = nil
		return n.evalIdent(a)
	}
	if env.pkg != nil {
		if o := env.pkg.Scope().Lookup(name); o != nil {
			return env.objectValue(o)
		}
	}
	sfail("unknown identifier %s", name)
	return TV{}
}

func (env *SpecEnv) objectValue(o types.Object) TV {
	switch o := o.(type) {
	case *types.Const:
		return constToTV(o.Val(), o.Type())
	case *types.Var:
		p := env.fc.eng.globalPtr(o)
		return TV{env.fc.loadGlobal(env.st, o, p), o.Type()}
	}
	sfail("%s is not a value", o.Name())
	return TV{}
}

func unify(a, b TV) (TV, TV) {
	_, ua := a.V.(UntypedConst)
	_, ub := b.V.(UntypedConst)
	switch {
	case ua && ub:
		return defaultType(a), defaultType(b)
	case ua:
		return coerce(a, b.T), b
	case ub:
		return a, coerce(b, a.T)
	}
	// nil adapts
	if isUntypedNil(a.T) && !isUntypedNil(b.T) {
		return TV{zeroVal(b.T), b.T}, b
	}
	if isUntypedNil(b.T) && !isUntypedNil(a.T) {
		return a, TV{zeroVal(a.T), a.T}
	}
	return a, b
}

func isUntypedNil(t types.Type) bool {
	b, ok := t.(*types.Basic)
	return ok && b.Kind() == types.UntypedNil
}

func (env *SpecEnv) evalUnary(e *Expr) TV {
	if e.Op == "*" {
		x := env.eval(e.X[0])
		p, ok := x.V.(PtrV)
		if !ok {
			sfail("cannot dereference %s", e.X[0])
		}
		_, pt := pathNames(p.Root, p.Path)
		return TV{env.fc.load(env.st, p, pt), pt}
	}
	if e.Op == "&" {
		p, t := env.evalLoc(e.X[0])
		return TV{p, types.NewPointer(t)}
	}
	x := env.eval(e.X[0])
	switch e.Op {
	case "!":
		return boolTV(not(x.V.(Scalar).T))
	case "-":
		if u, ok := x.V.(UntypedConst); ok {
			bi, _ := new(big.Int).SetString(u.V, 10)
			return TV{UntypedConst{bi.Neg(bi).String()}, nil}
		}
		return TV{Scalar{app("bvneg", x.V.(Scalar).T)}, x.T}
	case "^":
		if u, ok := x.V.(UntypedConst); ok {
			bi, _ := new(big.Int).SetString(u.V, 10)
			return TV{UntypedConst{bi.Not(bi).String()}, nil}
		}
		return TV{Scalar{app("bvnot", x.V.(Scalar).T)}, x.T}
	}
	sfail("unary %s not supported", e.Op)
	return TV{}
}

func foldConst(op string, a, b UntypedConst) (TV, bool) {
	x, _ := new(big.Int).SetString(a.V, 10)
	y, _ := new(big.Int).SetString(b.V, 10)
	r := new(big.Int)
	switch op {
	case "+":
		r.Add(x, y)
	case "-":
		r.Sub(x, y)
	case "*":
		r.Mul(x, y)
	case "/":
		if y.Sign() == 0 {
			sfail("constant division by zero")
		}
		r.Quo(x, y)
	case "%":
		r.Rem(x, y)
	case "<<":
		r.Lsh(x, uint(y.Uint64()))
	case ">>":
		r.Rsh(x, uint(y.Uint64()))
	case "&":
		r.And(x, y)
	case "|":
		r.Or(x, y)
	case "^":
		r.Xor(x, y)
	case "&^":
		r.AndNot(x, y)
	case "==":
		return boolTV(fmt.Sprint(x.Cmp(y) == 0)), true
	case "!=":
		return boolTV(fmt.Sprint(x.Cmp(y) != 0)), true
	case "<":
		return boolTV(fmt.Sprint(x.Cmp(y) < 0)), true
	case "<=":
		return boolTV(fmt.Sprint(x.Cmp(y) <= 0)), true
	case ">":
		return boolTV(fmt.Sprint(x.Cmp(y) > 0)), true
	case ">=":
		return boolTV(fmt.Sprint(x.Cmp(y) >= 0)), true
	default:
		return TV{}, false
	}
	return TV{UntypedConst{r.String()}, nil}, true
}

func (env *SpecEnv) evalBinary(e *Expr) TV {
	switch e.Op {
	case "&&":
		return boolTV(and(env.evalBool(e.X[0]), env.evalBool(e.X[1])))
	case "||":
		return boolTV(or(env.evalBool(e.X[0]), env.evalBool(e.X[1])))
	case "==>":
		return boolTV(implies(env.evalBool(e.X[0]), env.evalBool(e.X[1])))
	case "<==>":
		return boolTV(eq(env.evalBool(e.X[0]), env.evalBool(e.X[1])))
	case "in":
		k := env.eval(e.X[0])
		m := env.eval(e.X[1])
		mt, ok := m.T.Underlying().(*types.Map)
		if !ok {
			sfail("'in' needs a map on the right: %s", e)
		}
		k = coerce(k, mt.Key())
		present, _ := env.fc.mapLookup(env.st, m.V.(Scalar).T, mt, k.V)
		return boolTV(present)
	}
	a, b := env.eval(e.X[0]), env.eval(e.X[1])
	if ua, ok := a.V.(UntypedConst); ok {
		if ub, ok := b.V.(UntypedConst); ok {
			if tv, ok := foldConst(e.Op, ua, ub); ok {
				return tv
			}
		}
	}
	if e.Op == "<<" || e.Op == ">>" {
		a = defaultType(a)
		return TV{Scalar{shiftTerm(e.Op == "<<", a.V.(Scalar).T, a.T, b)}, a.T}
	}
	a, b = unify(a, b)
	switch e.Op {
	case "==", "!=":
		var t string
		fa, oka := a.V.(FrozenV)
		fb, okb := b.V.(FrozenV)
		if oka && okb {
			t = env.contentEq(fa, fb)
		} else if oka != okb {
			sfail("bytes(..) compared with a non-content value: %s", e)
		} else if ia, okA := a.V.(IfaceV); okA && isIfaceT(a.T) && isIfaceT(b.T) {
			// two interface values of different static interface types (error vs any)
			ib, okB := b.V.(IfaceV)
			if !okB {
				sfail("mismatched types in %s: %s vs %s", e, a.T, b.T)
			}
			t = and(eq(ia.Tag, ib.Tag), eq(ia.Ref, ib.Ref))
		} else if ia, pb, ok := ifaceAndPointer(a, b); ok {
			// an interface value compared with a pointer: same dynamic type and same object
			// (a nil pointer in an interface is not the nil interface, as in Go)
			t = and(eq(ia.Tag, env.fc.eng.typeTag(pb.T)), eq(ia.Ref, pb.V.(PtrV).Ref))
		} else {
			if a.T != nil && b.T != nil && !types.Identical(a.T.Underlying(), b.T.Underlying()) &&
				!(isInt(a.T) && isInt(b.T) && intWidth(a.T) == intWidth(b.T)) && !isUntypedNil(a.T) && !isUntypedNil(b.T) {
				sfail("mismatched types in %s: %s vs %s", e, a.T, b.T)
			}
			t = eqVal(a.T, a.V, b.V)
		}
		if e.Op == "!=" {
			t = not(t)
		}
		return boolTV(t)
	}
	sa, oka := a.V.(Scalar)
	sb, okb := b.V.(Scalar)
	if !oka || !okb || !isInt(a.T) {
		sfail("operator %s needs integers: %s", e.Op, e)
	}
	if intWidth(a.T) != intWidth(b.T) {
		sfail("mismatched integer widths in %s (%s vs %s)", e, a.T, b.T)
	}
	uns := isUnsigned(a.T)
	x, y := sa.T, sb.T
	pick := func(u, s string) string {
		if uns {
			return u
		}
		return s
	}
	switch e.Op {
	case "+":
		return TV{Scalar{app("bvadd", x, y)}, a.T}
	case "-":
		return TV{Scalar{app("bvsub", x, y)}, a.T}
	case "*":
		return TV{Scalar{app("bvmul", x, y)}, a.T}
	case "/":
		return TV{Scalar{app(pick("bvudiv", "bvsdiv"), x, y)}, a.T}
	case "%":
		return TV{Scalar{app(pick("bvurem", "bvsrem"), x, y)}, a.T}
	case "&":
		return TV{Scalar{app("bvand", x, y)}, a.T}
	case "|":
		return TV{Scalar{app("bvor", x, y)}, a.T}
	case "^":
		return TV{Scalar{app("bvxor", x, y)}, a.T}
	case "&^":
		return TV{Scalar{app("bvand", x, app("bvnot", y))}, a.T}
	case "<":
		return boolTV(app(pick("bvult", "bvslt"), x, y))
	case "<=":
		return boolTV(app(pick("bvule", "bvsle"), x, y))
	case ">":
		return boolTV(app(pick("bvugt", "bvsgt"), x, y))
	case ">=":
		return boolTV(app(pick("bvuge", "bvsge"), x, y))
	}
	sfail("operator %s not supported", e.Op)
	return TV{}
}

// shiftTerm: Go shift semantics (count >= width gives 0 / sign fill).
func shiftTerm(left bool, x string, xt types.Type, cnt TV) string {
	w := intWidth(xt)
	var c string
	var tooBig string // condition "count >= w"
	if u, ok := cnt.V.(UntypedConst); ok {
		bi, _ := new(big.Int).SetString(u.V, 10)
		if bi.Sign() < 0 {
			sfail("negative constant shift count")
		}
		if bi.Cmp(new(big.Int).SetInt64(int64(w))) >= 0 {
			tooBig = "true"
			c = bvlit(0, w)
		} else {
			tooBig = "false"
			c = bvlit(bi.Uint64(), w)
		}
	} else {
		cw := intWidth(cnt.T)
		ct := cnt.V.(Scalar).T
		tooBig = app("bvuge", ct, bvlit(uint64(w), cw))
		switch {
		case cw == w:
			c = ct
		case cw > w:
			c = fmt.Sprintf("((_ extract %d 0) %s)", w-1, ct)
		default:
			c = fmt.Sprintf("((_ zero_extend %d) %s)", w-cw, ct)
		}
	}
	if left {
		return ite(tooBig, bvlit(0, w), app("bvshl", x, c))
	}
	if isUnsigned(xt) {
		return ite(tooBig, bvlit(0, w), app("bvlshr", x, c))
	}
	return ite(tooBig, app("bvashr", x, bvlit(uint64(w-1), w)), app("bvashr", x, c))
}

func (env *SpecEnv) contentEq(a, b FrozenV) string {
	i := env.fc.smt.freshName("ci")
	body := implies(and(app("bvsle", bvlit(0, 64), i), app("bvslt", i, a.Len)),
		eq(app("select", a.Arr, app("bvadd", a.Off, i)), app("select", b.Arr, app("bvadd", b.Off, i))))
	return and(eq(a.Len, b.Len), fmt.Sprintf("(forall ((%s (_ BitVec 64))) %s)", i, body))
}

func (env *SpecEnv) freeze(x TV) FrozenV {
	switch s := x.V.(type) {
	case FrozenV:
		return s
	case SliceV:
		et := elemType(x.T)
		return FrozenV{env.fc.regionArr(env.st, s, et), s.Off, s.Len}
	}
	sfail("bytes() needs a slice or string")
	return FrozenV{}
}

func (env *SpecEnv) evalSel(e *Expr) TV {
	// package-qualified identifier?
	if e.X[0].K == "id" {
		if _, shadow := env.vars[e.X[0].Name]; !shadow {
			isVar := false
			if env.resolve != nil {
				_, isVar = env.resolve(e.X[0].Name)
			}
			if !isVar {
				if p := env.lookupPkg(e.X[0].Name); p != nil {
					if o := p.Scope().Lookup(e.Name); o != nil {
						return env.objectValue(o)
					}
				}
			}
		}
	}
	x := env.eval(e.X[0])
	return env.fieldOf(x, e.Name, e)
}

func (env *SpecEnv) fieldOf(x TV, name string, e *Expr) TV {
	obj, index, _ := types.LookupFieldOrMethod(x.T, true, env.pkgOf(x.T), name)
	fld, ok := obj.(*types.Var)
	if !ok || fld == nil {
		sfail("no field %s in %s (%s)", name, x.T, e)
	}
	cur := x
	for _, i := range index {
		cur = env.fieldStep(cur, i)
	}
	return cur
}

func (env *SpecEnv) pkgOf(t types.Type) *types.Package {
	if p, ok := t.(*types.Pointer); ok {
		t = p.Elem()
	}
	if n, ok := t.(*types.Named); ok && n.Obj().Pkg() != nil {
		return n.Obj().Pkg()
	}
	return env.pkg
}

func (env *SpecEnv) fieldStep(x TV, i int) TV {
	switch v := x.V.(type) {
	case PtrV:
		_, pt := pathNames(v.Root, v.Path)
		st, ok := pt.Underlying().(*types.Struct)
		if !ok {
			sfail("field access through pointer to non-struct %s", pt)
		}
		ft := st.Field(i).Type()
		np := v
		np.Path = append(append([]int(nil), v.Path...), i)
		if _, isStruct := ft.Underlying().(*types.Struct); isStruct {
			// stay symbolic: pointer to the embedded struct, typed as the struct value
			return TV{np, types.NewPointer(ft)}
		}
		return TV{env.fc.load(env.st, np, ft), ft}
	case StructV:
		st := x.T.Underlying().(*types.Struct)
		return TV{v.F[i], st.Field(i).Type()}
	}
	sfail("field access on %T", x.V)
	return TV{}
}

// evalLoc evaluates an lvalue expression to a pointer.
func (env *SpecEnv) evalLoc(e *Expr) (PtrV, types.Type) {
	switch e.K {
	case "sel":
		x := env.eval(e.X[0])
		p, ok := x.V.(PtrV)
		if !ok {
			sfail("cannot take the location of %s", e)
		}
		_, pt := pathNames(p.Root, p.Path)
		obj, index, _ := types.LookupFieldOrMethod(pt, true, env.pkgOf(pt), e.Name)
		if _, ok := obj.(*types.Var); !ok {
			sfail("no field %s in %s", e.Name, pt)
		}
		np := p
		np.Path = append([]int(nil), p.Path...)
		t := pt
		for _, i := range index {
			st := t.Underlying().(*types.Struct)
			np.Path = append(np.Path, i)
			t = st.Field(i).Type()
		}
		return np, t
	case "un":
		if e.Op == "*" {
			x := env.eval(e.X[0])
			p, ok := x.V.(PtrV)
			if !ok {
				sfail("cannot dereference %s", e)
			}
			_, pt := pathNames(p.Root, p.Path)
			return p, pt
		}
	case "index":
		x := env.eval(e.X[0])
		s, ok := x.V.(SliceV)
		if !ok {
			sfail("cannot take the location of %s", e)
		}
		et := elemType(x.T)
		i := toBV64(coerce(env.eval(e.X[1]), types.Typ[types.Int]))
		return env.fc.elemPtr(s, i, et), et
	case "id":
		x := env.eval(e)
		if p, ok := x.V.(PtrV); ok {
			_, pt := pathNames(p.Root, p.Path)
			return p, pt
		}
	}
	sfail("not an lvalue: %s", e)
	return PtrV{}, nil
}

func (env *SpecEnv) evalQuant(e *Expr) TV {
	n := env
	var binds []string
	for _, b := range e.Vars {
		t := env.resolveType(b.Type)
		ls := leavesOf(t)
		if len(ls) != 1 {
			sfail("quantified variable %s must have a scalar type", b.Name)
		}
		name := env.fc.smt.freshName(b.Name)
		binds = append(binds, fmt.Sprintf("(%s %s)", name, ls[0].Sort))
		ts := []string{name}
		n = n.with(b.Name, TV{unflatten(t, &ts), t})
		n.bound = append(append([]string(nil), n.bound...), name)
		env.fc.boundNames = append(env.fc.boundNames, name)
	}
	defer func(k int) { env.fc.boundNames = env.fc.boundNames[:k] }(len(env.fc.boundNames) - len(e.Vars))
	env.fc.smt.inQuant++
	defer func() { env.fc.smt.inQuant-- }()
	body := n.evalBool(e.X[0])
	if len(e.Trig) > 0 {
		var pats []string
		for _, g := range e.Trig {
			var ts []string
			for _, t := range g {
				tv := n.eval(t)
				for _, s := range flattenAny(tv) {
					ts = append(ts, s)
				}
			}
			pats = append(pats, ":pattern ("+strings.Join(ts, " ")+")")
		}
		body = "(! " + body + " " + strings.Join(pats, " ") + ")"
	}
	return boolTV(fmt.Sprintf("(%s (%s) %s)", e.Op, strings.Join(binds, " "), body))
}

func flattenAny(tv TV) []string {
	switch v := tv.V.(type) {
	case Scalar:
		return []string{v.T}
	case UntypedConst:
		return flattenAny(defaultType(tv))
	}
	return flatten(tv.T, tv.V)
}

func (env *SpecEnv) evalCall(e *Expr) TV {
	fc := env.fc
	callee := e.X[0]
	args := e.X[1:]
	if t, ok := env.tryType(callee); ok {
		if len(args) != 1 {
			sfail("conversion needs one argument: %s", e)
		}
		return env.convert(env.eval(args[0]), t)
	}
	if callee.K == "sel" && callee.X[0].K == "id" && fc.eng.cs.Specs[callee.Name] != nil && env.lookupPkg(callee.X[0].Name) != nil {
		// package-qualified spec function: spec functions live in one global namespace
		callee = &Expr{K: "id", Name: callee.Name}
	}
	if callee.K == "id" {
		switch callee.Name {
		case "old":
			if env.old == nil {
				sfail("old() not available here")
			}
			oe := env.inState(env.old)
			if env.oldResolve != nil {
				// inside a function body, names inside old() denote the entry values of parameters
				oe.resolve = env.oldResolve
			}
			return oe.eval(args[0])
		case "called":
			// called(callee#k): the k-th call site of callee was executed on this path
			if len(args) != 1 || args[0].K != "id" {
				sfail("called(callee#k) needs a call-site name")
			}
			site := args[0].Name
			if !strings.Contains(site, "#") {
				// any call site of that callee
				var any []string
				for k, v := range env.st.heap {
					if strings.HasPrefix(k, "called|"+site+"#") {
						any = append(any, v)
					}
				}
				sort.Strings(any)
				return boolTV(or(any...))
			}
			if v, ok := env.st.heap["called|"+site]; ok {
				return boolTV(v)
			}
			return boolTV("false")
		case "atloop":
			// atloop(x): the value the local variable x had at the head of the innermost enclosing
			// loop that carries it, in the current iteration (before the body assigned to it)
			if env.resolveAtLoop == nil || len(args) != 1 || args[0].K != "id" {
				sfail("atloop(x) is only available in assert clauses, for a local variable")
			}
			tv, ok := env.resolveAtLoop(args[0].Name)
			if !ok {
				sfail("atloop(%s): no enclosing loop carries this variable", args[0].Name)
			}
			return tv
		case "ret", "ret0", "ret1", "ret2":
			// ret(callee#k): the value returned by the k-th call site of callee (first result of a
			// tuple; ret1, ret2 select the others). Unconstrained when that call was not executed
			// on this path: guard with called(callee#k).
			if env.resolveRet == nil || len(args) != 1 || args[0].K != "id" {
				sfail("ret(callee#k) is only available in assert clauses")
			}
			tv, ok := env.resolveRet(args[0].Name)
			if !ok {
				sfail("ret(%s): no such call site in this function", args[0].Name)
			}
			if tup, isTup := tv.V.(TupleV); isTup {
				k := 0
				if callee.Name != "ret" {
					k = int(callee.Name[3] - '0')
				}
				tt := tv.T.(*types.Tuple)
				if k >= len(tup) {
					sfail("%s: call has %d results", callee.Name, len(tup))
				}
				return TV{tup[k], tt.At(k).Type()}
			}
			return tv
		case "len", "cap":
			x := env.eval(args[0])
			switch s := x.V.(type) {
			case SliceV:
				if callee.Name == "len" {
					return TV{Scalar{s.Len}, types.Typ[types.Int]}
				}
				return TV{Scalar{s.Cap}, types.Typ[types.Int]}
			case FrozenV:
				return TV{Scalar{s.Len}, types.Typ[types.Int]}
			case Scalar:
				if mt, ok := x.T.Underlying().(*types.Map); ok {
					return TV{Scalar{fc.mapLen(env.st, s.T, mt)}, types.Typ[types.Int]}
				}
			case ArrV:
				at := x.T.Underlying().(*types.Array)
				return TV{Scalar{bvlit(uint64(at.Len()), 64)}, types.Typ[types.Int]}
			}
			sfail("len/cap of %s", args[0])
		case "bytes":
			x := env.eval(args[0])
			return TV{env.freeze(x), x.T}
		case "fresh":
			x := env.eval(args[0])
			var ref string
			switch v := x.V.(type) {
			case SliceV:
				ref = v.Ref
			case PtrV:
				ref = v.Ref
			case Scalar:
				ref = v.T
			default:
				sfail("fresh() needs a reference")
			}
			oa := fc.pre.alloc
			if env.old != nil {
				oa = env.old.alloc
			}
			return boolTV(app(">", ref, oa))
		case "held":
			p, _ := env.evalLoc(args[0])
			return boolTV(fc.heldGet(env.st, p))
		case "min", "max":
			a, b := unify(env.eval(args[0]), env.eval(args[1]))
			op := "bvsle"
			if isUnsigned(a.T) {
				op = "bvule"
			}
			c := app(op, a.V.(Scalar).T, b.V.(Scalar).T)
			if callee.Name == "max" {
				c = not(c)
			}
			return TV{Scalar{ite(c, a.V.(Scalar).T, b.V.(Scalar).T)}, a.T}
		case "disjoint":
			// the two slices share no memory (up to their capacities)
			a, oka := env.eval(args[0]).V.(SliceV)
			b, okb := env.eval(args[1]).V.(SliceV)
			if !oka || !okb {
				sfail("disjoint() needs two slices")
			}
			return boolTV(or(not(eq(a.Ref, b.Ref)), app("bvsle", app("bvadd", a.Off, a.Cap), b.Off), app("bvsle", app("bvadd", b.Off, b.Cap), a.Off)))
		case "sameRegion":
			// the two slices point into the same allocation
			a, oka := env.eval(args[0]).V.(SliceV)
			b, okb := env.eval(args[1]).V.(SliceV)
			if !oka || !okb {
				sfail("sameRegion() needs two slices")
			}
			return boolTV(and(eq(a.Ref, b.Ref), not(eq(a.Ref, "0"))))
		case "allnonnil":
			// allnonnil(m): every value stored in map m is a non-nil pointer
			x := env.eval(args[0])
			mt, ok := x.T.Underlying().(*types.Map)
			if !ok {
				sfail("allnonnil() needs a map")
			}
			if _, isPtr := mt.Elem().Underlying().(*types.Pointer); !isPtr {
				sfail("allnonnil() needs a map to pointers")
			}
			m := x.V.(Scalar).T
			ks := fc.mapKeySort(mt)
			name := "map|" + typeName(mt)
			ph := fc.heapSym(env.st, name+"|present", "(Array Int (Array "+ks+" Bool))")
			vh := fc.heapSym(env.st, name+"|val", "(Array Int (Array "+ks+" Int))")
			k := fc.smt.freshName("k")
			return boolTV(fmt.Sprintf("(forall ((%s %s)) (! (=> (select (select %s %s) %s) (not (= (select (select %s %s) %s) 0))) :pattern ((select (select %s %s) %s))))", k, ks, ph, m, k, vh, m, k, vh, m, k))
		case "unchanged":
			// unchanged(m): the contents of map m are the same as in the old state
			x := env.eval(args[0])
			mt, ok := x.T.Underlying().(*types.Map)
			if !ok || env.old == nil {
				sfail("unchanged() needs a map (and an old state)")
			}
			m := x.V.(Scalar).T
			var cs []string
			for _, ks := range fc.mapKeys(mt) {
				cs = append(cs, eq(app("select", fc.heapSym(env.st, ks.key, ks.sort), m), app("select", fc.heapSym(env.old, ks.key, ks.sort), m)))
			}
			return boolTV(and(cs...))
		case "typeof":
			x := env.eval(args[0])
			return TV{Scalar{x.V.(IfaceV).Tag}, types.Typ[types.Int]}
		case "isnil":
			x := env.eval(args[0])
			return boolTV(nilTest(x))
		}
		if sf := fc.eng.cs.Specs[callee.Name]; sf != nil {
			return env.applySpec(sf, args)
		}
	}
	sfail("unknown function in specification: %s", callee)
	return TV{}
}

func nilTest(x TV) string {
	switch v := x.V.(type) {
	case SliceV:
		return eq(v.Ref, "0")
	case PtrV:
		return eq(v.Ref, "0")
	case IfaceV:
		return eq(v.Tag, "0")
	case Scalar:
		return eq(v.T, "0")
	}
	sfail("isnil on %T", x.V)
	return ""
}

func (env *SpecEnv) convert(x TV, t types.Type) TV {
	if _, ok := x.V.(UntypedConst); ok {
		return coerce(x, t)
	}
	if isInt(t) && isInt(x.T) {
		return TV{Scalar{convInt(x.V.(Scalar).T, x.T, t)}, t}
	}
	if types.Identical(x.T.Underlying(), t.Underlying()) {
		return TV{x.V, t}
	}
	if isString(t) || isString(x.T) {
		// string(b) / []byte(s) in a specification: same content view
		if s, ok := x.V.(SliceV); ok {
			return TV{SliceV{s.Ref, s.Off, s.Len, s.Len}, t}
		}
	}
	sfail("conversion from %s to %s not supported in specifications", x.T, t)
	return TV{}
}

func convInt(x string, from, to types.Type) string {
	fw, tw := intWidth(from), intWidth(to)
	switch {
	case fw == tw:
		return x
	case fw > tw:
		return fmt.Sprintf("((_ extract %d 0) %s)", tw-1, x)
	case isUnsigned(from):
		return fmt.Sprintf("((_ zero_extend %d) %s)", tw-fw, x)
	}
	return fmt.Sprintf("((_ sign_extend %d) %s)", tw-fw, x)
}

func (env *SpecEnv) applySpec(sf *SpecFn, args []*Expr) TV {
	fc := env.fc
	if len(args) != len(sf.Params) {
		sfail("spec function %s takes %d arguments", sf.Name, len(sf.Params))
	}
	penv := &SpecEnv{fc: fc, st: env.st, old: env.old, pkg: fc.eng.typesPkg(sf.Pkg), vars: map[string]TV{}, depth: env.depth + 1, transparent: env.transparent}
	if env.transparent && sf.Body != nil && sf.Opaque {
		tr := *sf
		tr.Opaque = false
		sf = &tr
	}
	if penv.pkg == nil {
		penv.pkg = env.pkg
	}
	if env.depth > 40 {
		sfail("spec function recursion too deep in %s (declare it opaque)", sf.Name)
	}
	var argv []TV
	for i, p := range sf.Params {
		pt := penv.resolveType(p.Type)
		a := env.eval(args[i])
		a = coerce(a, pt)
		if isUntypedNil(a.T) {
			a = TV{zeroVal(pt), pt}
		}
		if _, isSlice := pt.Underlying().(*types.Slice); isSlice || isString(pt) {
			// slices are passed with their content frozen in the caller's state
			if _, ok := a.V.(FrozenV); !ok && (sf.Opaque || sf.Body == nil) {
				a = TV{env.freeze(a), pt}
			}
		}
		a.T = pt
		argv = append(argv, a)
		penv.vars[p.Name] = a
	}
	rt := penv.resolveType(sf.Ret)
	if sf.Body != nil && !sf.Opaque {
		r := penv.eval(sf.Body)
		r = coerce(r, rt)
		if isUntypedNil(r.T) {
			r = TV{zeroVal(rt), rt}
		}
		r.T = rt
		return r
	}
	return fc.opaqueApp(env, sf, argv, rt)
}

// opaqueApp builds (or reuses) an application of an uninterpreted spec function.
func (fc *FnCtx) opaqueApp(env *SpecEnv, sf *SpecFn, argv []TV, rt types.Type) TV {
	var flat []string
	var sorts []string
	for _, a := range argv {
		switch v := a.V.(type) {
		case FrozenV:
			et := elemType(a.T)
			ls := leavesOf(et)
			flat = append(flat, v.Arr, v.Off, v.Len)
			sorts = append(sorts, "(Array (_ BitVec 64) "+ls[0].Sort+")", bvsort(64), bvsort(64))
		default:
			f := flatten(a.T, a.V)
			flat = append(flat, f...)
			for _, l := range leavesOf(a.T) {
				sorts = append(sorts, l.Sort)
			}
		}
	}
	rl := leavesOf(rt)
	if len(rl) != 1 {
		sfail("opaque spec function %s must return a scalar", sf.Name)
	}
	sym := "spec_" + sf.Name
	fc.eng.declareFun(sym, sorts, rl[0].Sort)
	term := app(sym, flat...)
	if len(flat) == 0 {
		term = sym
	}
	for _, bv := range fc.boundNames {
		if strings.Contains(term, bv) {
			// under a quantifier: the application mentions a bound variable and cannot be named
			ts := []string{term}
			return TV{unflatten(rt, &ts), rt}
		}
	}
	key := term
	for _, a := range fc.smt.apps[sf.Name] {
		if a.Term == key {
			ts := []string{a.Name}
			return TV{unflatten(rt, &ts), rt}
		}
	}
	name := fc.smt.defineAlways("app_"+sf.Name, rl[0].Sort, term)
	oa := &OpaqueApp{Fn: sf.Name, Args: flat, Term: term, Name: name, ArgTV: argv}
	fc.smt.apps[sf.Name] = append(fc.smt.apps[sf.Name], oa)
	fc.instantiateAxioms(env, oa)
	ts := []string{name}
	return TV{unflatten(rt, &ts), rt}
}

// revealSpec returns the equation app == body for an opaque function with a body.
func (env *SpecEnv) revealSpec(e *Expr) string {
	if e.K != "call" || e.X[0].K != "id" {
		sfail("reveal needs a spec function application: %s", e)
	}
	sf := env.fc.eng.cs.Specs[e.X[0].Name]
	if sf == nil || sf.Body == nil {
		sfail("reveal: %s is not a spec function with a body", e.X[0].Name)
	}
	appTV := env.applySpec(sf, e.X[1:])
	tr := *sf
	tr.Opaque = false
	bodyTV := env.applySpec(&tr, e.X[1:])
	return eqVal(appTV.T, appTV.V, bodyTV.V)
}

// ifaceAndPointer recognises "interface == pointer" (either order) in a contract expression.
func ifaceAndPointer(a, b TV) (IfaceV, TV, bool) {
	if a.T == nil || b.T == nil {
		return IfaceV{}, TV{}, false
	}
	pick := func(i, p TV) (IfaceV, TV, bool) {
		iv, ok := i.V.(IfaceV)
		if !ok {
			return IfaceV{}, TV{}, false
		}
		if _, isI := i.T.Underlying().(*types.Interface); !isI {
			return IfaceV{}, TV{}, false
		}
		pv, ok := p.V.(PtrV)
		if !ok || pv.Kind != PObj || len(pv.Path) != 0 {
			return IfaceV{}, TV{}, false
		}
		if _, isP := p.T.Underlying().(*types.Pointer); !isP {
			return IfaceV{}, TV{}, false
		}
		return iv, p, true
	}
	if iv, p, ok := pick(a, b); ok {
		return iv, p, true
	}
	return pick(b, a)
}

func isIfaceT(t types.Type) bool {
	if t == nil {
		return false
	}
	_, ok := t.Underlying().(*types.Interface)
	return ok
}
