package main

// Symbolic execution of one SSA function: weakest-precondition style obligation generation
// over the loop-cut control-flow graph.

import (
	"bytes"
	"fmt"
	"go/ast"
	"go/constant"
	"go/printer"
	"go/token"
	"go/types"
	"math/big"
	"sort"
	"strings"

	"golang.org/x/tools/go/ssa"
)

type loopInfo struct {
	head    *ssa.BasicBlock
	blocks  map[*ssa.BasicBlock]bool
	ordinal int
	entrySt *State
	headSt  *State // state at the head for one iteration (after havoc and invariants)
}

type edgeKey struct{ from, to, slot int }

type bodyRun struct {
	fc       *FnCtx
	fn       *ssa.Function
	edges    map[edgeKey]*State
	loops    map[*ssa.BasicBlock]*loopInfo
	onReturn func(st *State, results []Val, ret *ssa.Return)
	phiOv    map[*ssa.Phi]Val
	blockSt  map[*ssa.BasicBlock]*State
	defers   []*deferRec
	ct       *Contract
	prefix   string
	assertHits map[int]int
	writeRanges []writeRange
	cells map[types.Object]ssa.Value
	cellsByName map[string][]*ssa.Alloc
	sites map[string][]ssa.CallInstruction
	assigns map[string][]*ssa.DebugRef // assignments to a source variable, in source order
	callCells map[string]cellRef // captured variables of the closure whose contract is being applied
}

func (br *bodyRun) namedAllocs(name string) []*ssa.Alloc {
	var out []*ssa.Alloc
	for _, b := range br.fn.Blocks {
		for _, ins := range b.Instrs {
			if a, ok := ins.(*ssa.Alloc); ok && a.Comment == name {
				out = append(out, a)
			}
		}
	}
	return out
}

// assignSites: the debug references that stand for assignments to the source variable name
// (x = e, x := e, x op= e, x++), in source order.
func (br *bodyRun) assignSites(name string) []*ssa.DebugRef {
	if br.assigns == nil {
		br.assigns = map[string][]*ssa.DebugRef{}
		lhs := map[*ast.Ident]bool{}
		if syn := br.fn.Syntax(); syn != nil {
			ast.Inspect(syn, func(n ast.Node) bool {
				switch x := n.(type) {
				case *ast.AssignStmt:
					for _, l := range x.Lhs {
						if id, ok := l.(*ast.Ident); ok {
							lhs[id] = true
						}
					}
				case *ast.IncDecStmt:
					if id, ok := x.X.(*ast.Ident); ok {
						lhs[id] = true
					}
				case *ast.FuncLit:
					// assignments inside nested closures belong to those closures
					return n == syn
				}
				return true
			})
		}
		for _, b := range br.fn.Blocks {
			for _, ins := range b.Instrs {
				dr, ok := ins.(*ssa.DebugRef)
				if !ok || dr.IsAddr {
					continue
				}
				id, ok := dr.Expr.(*ast.Ident)
				if !ok || !lhs[id] {
					continue
				}
				br.assigns[id.Name] = append(br.assigns[id.Name], dr)
			}
		}
		for _, l := range br.assigns {
			sort.SliceStable(l, func(i, j int) bool { return l[i].Pos() < l[j].Pos() })
		}
	}
	return br.assigns[name]
}

func mkKS(key, sort string) keySort { return keySort{key: key, sort: sort} }

// writeRange: inside loop li, stores into region ref (heap key) must stay within [lo,hi).
type writeRange struct {
	key, ref, lo, hi string
	li               *loopInfo
}

// findLoops computes natural loops; ordinals follow header block index.
func findLoops(fn *ssa.Function) map[*ssa.BasicBlock]*loopInfo {
	loops := map[*ssa.BasicBlock]*loopInfo{}
	for _, b := range fn.Blocks {
		for _, s := range b.Succs {
			if s.Dominates(b) {
				li := loops[s]
				if li == nil {
					li = &loopInfo{head: s, blocks: map[*ssa.BasicBlock]bool{s: true}}
					loops[s] = li
				}
				// natural loop of back edge b->s
				var stack []*ssa.BasicBlock
				if !li.blocks[b] {
					li.blocks[b] = true
					stack = append(stack, b)
				}
				for len(stack) > 0 {
					x := stack[len(stack)-1]
					stack = stack[:len(stack)-1]
					for _, p := range x.Preds {
						if !li.blocks[p] {
							li.blocks[p] = true
							stack = append(stack, p)
						}
					}
				}
			}
		}
	}
	var heads []*ssa.BasicBlock
	for h := range loops {
		heads = append(heads, h)
	}
	sort.Slice(heads, func(i, j int) bool { return heads[i].Index < heads[j].Index })
	for i, h := range heads {
		loops[h].ordinal = i + 1
	}
	return loops
}

func isBackEdge(from, to *ssa.BasicBlock) bool { return to.Dominates(from) }

func rpo(fn *ssa.Function) []*ssa.BasicBlock {
	seen := map[*ssa.BasicBlock]bool{}
	var post []*ssa.BasicBlock
	var dfs func(b *ssa.BasicBlock)
	dfs = func(b *ssa.BasicBlock) {
		seen[b] = true
		for _, s := range b.Succs {
			if !seen[s] && !isBackEdge(b, s) {
				dfs(s)
			}
		}
		post = append(post, b)
	}
	dfs(fn.Blocks[0])
	// reverse
	for i, j := 0, len(post)-1; i < j; i, j = i+1, j-1 {
		post[i], post[j] = post[j], post[i]
	}
	// a forward edge into an unvisited block from a later block cannot occur in reducible CFGs
	return post
}

func (fc *FnCtx) execBody(fn *ssa.Function, st0 *State, ct *Contract, prefix string, onReturn func(*State, []Val, *ssa.Return)) {
	if len(fn.Blocks) == 0 {
		unsup("function %s has no body", fn)
	}
	br := &bodyRun{fc: fc, fn: fn, edges: map[edgeKey]*State{}, loops: findLoops(fn), onReturn: onReturn,
		blockSt: map[*ssa.BasicBlock]*State{}, ct: ct, prefix: prefix, assertHits: map[int]int{}}
	order := rpo(fn)
	for _, b := range order {
		var st *State
		if b.Index == 0 {
			st = st0
		} else {
			st = br.enter(b)
		}
		if st == nil {
			continue
		}
		br.blockSt[b] = st
		fc.curSt = st
		br.runBlock(b, st)
	}
}

func (br *bodyRun) mergeStates(sts []*State) *State {
	fc := br.fc
	if len(sts) == 1 {
		return sts[0].clone()
	}
	m := &State{heap: map[string]string{}}
	var gs []string
	for _, s := range sts {
		gs = append(gs, s.guard)
	}
	m.guard = fc.smt.defineAlways("g", "Bool", or(gs...))
	var ls []string
	for _, s := range sts {
		ls = append(ls, s.liteG())
	}
	m.lite = fc.smt.defineAlways("gl", "Bool", or(ls...))
	// alloc
	m.alloc = sts[len(sts)-1].alloc
	for i := len(sts) - 2; i >= 0; i-- {
		m.alloc = ite(sts[i].liteG(), sts[i].alloc, m.alloc)
	}
	m.alloc = fc.smt.define("alloc", "Int", m.alloc)
	sameBase := true
	for _, s := range sts {
		if s.base != sts[0].base {
			sameBase = false
		}
	}
	keys := map[string]bool{}
	for _, s := range sts {
		for k := range s.heap {
			keys[k] = true
		}
	}
	if sameBase {
		m.base = sts[0].base
	} else {
		for k := range fc.keySort {
			keys[k] = true
		}
		fc.nbase++
		m.base = fc.nbase
		fc.baseAlloc[m.base] = m.alloc
	}
	var ks []string
	for k := range keys {
		ks = append(ks, k)
	}
	sort.Strings(ks)
	flagVal := func(s *State, k, srt string) string {
		if strings.HasPrefix(k, "called|") || strings.HasPrefix(k, "defer|") {
			if v, ok := s.heap[k]; ok {
				return v
			}
			return "false" // the call / defer statement was not executed on this path
		}
		return fc.heapSym(s, k, srt)
	}
	for _, k := range ks {
		srt := fc.keySort[k]
		t := flagVal(sts[len(sts)-1], k, srt)
		same := true
		for i := len(sts) - 2; i >= 0; i-- {
			ti := flagVal(sts[i], k, srt)
			if ti != t {
				same = false
			}
			t = ite(sts[i].liteG(), ti, t)
		}
		if same {
			m.heap[k] = flagVal(sts[0], k, srt)
		} else {
			m.heap[k] = fc.smt.defineAlways("H_"+k, srt, t)
		}
	}
	return m
}

// enter computes the entry state of block b from its incoming forward edges, handling loop
// headers (invariant on entry, havoc, assume invariant).
func (br *bodyRun) enter(b *ssa.BasicBlock) *State {
	fc := br.fc
	var sts []*State
	var preds []int
	for i, p := range b.Preds {
		if isBackEdge(p, b) {
			continue
		}
		if st := br.edgeState(p, b, i); st != nil {
			sts = append(sts, st)
			preds = append(preds, i)
		}
	}
	if len(sts) == 0 {
		return nil
	}
	st := br.mergeStates(sts)
	// phis
	li := br.loops[b]
	for _, ins := range b.Instrs {
		phi, ok := ins.(*ssa.Phi)
		if !ok {
			break
		}
		var v Val
		for k := len(preds) - 1; k >= 0; k-- {
			ev := fc.val(phi.Edges[preds[k]])
			ev = adaptNil(ev, phi.Type())
			if v == nil {
				v = ev
			} else {
				v = iteVal(phi.Type(), sts[k].liteG(), ev, v)
			}
		}
		fc.vals[phi] = fc.nameVal(phi.Type(), v, "phi_"+phi.Comment)
	}
	if li == nil {
		return st
	}
	// loop header
	li.entrySt = st.clone()
	invs := br.loopClauses(li.ordinal, "invariant")
	if len(invs) == 0 && !fc.light {
		unsup("loop %d of %s (block %d, %s) has no invariant", li.ordinal, br.fn.Name(), b.Index, fc.posStr(firstPos(b)))
	}
	for i, c := range invs {
		env := br.envAt(b, phiCount(b), st, nil)
		fc.prove(env, c.E, st, fmt.Sprintf("%sinv-entry:%d:%s", br.prefix, li.ordinal, clauseName(c, i)), "inv-entry", firstPos(b), c.Src)
	}
	// havoc
	br.havocLoop(li, st)
	for _, ins := range b.Instrs {
		phi, ok := ins.(*ssa.Phi)
		if !ok {
			break
		}
		nv := fc.fresh(phi.Type(), "loop_"+phi.Comment)
		if p, ok := fc.vals[phi].(PtrV); ok {
			np := p
			np.Ref = fc.smt.declare("loop_"+phi.Comment, "Int")
			if p.Kind == PElem {
				np.Idx = fc.smt.declare("loop_"+phi.Comment+"_idx", bvsort(64))
			}
			nv = np
		}
		fc.vals[phi] = nv
		fc.assume(st, fc.typeInv(st, phi.Type(), nv))
		if phi.Comment == "rangeindex" && isInt(phi.Type()) && len(phi.Edges) == 2 {
			// structural fact of go/ssa's range loops: the hidden index starts at -1 and is
			// incremented only after index+1 < len was checked
			if c, ok := phi.Edges[0].(*ssa.Const); ok && c.Value != nil && c.Value.ExactString() == "-1" {
				fc.assume(st, app("bvsle", bvlit(^uint64(0), 64), nv.(Scalar).T))
				fc.assume(st, app("bvslt", nv.(Scalar).T, bvlit(1<<46, 64)))
			}
		}
	}
	for _, c := range invs {
		env := br.envAt(b, phiCount(b), st, nil)
		fc.assume(st, fc.hyp(env, c.E))
	}
	for _, c := range br.loopClauses(li.ordinal, "reveal") {
		env := br.envAt(b, phiCount(b), st, nil)
		fc.assume(st, fc.guarded(func() string { return env.revealSpec(c.E) }, c))
	}
	fc.cover(st, fmt.Sprintf("%scover:loop:%d", br.prefix, li.ordinal), firstPos(b), "loop invariant is satisfiable at the loop head")
	li.headSt = st.clone()
	return st
}

func (fc *FnCtx) guarded(f func() string, c *Clause) (out string) {
	defer func() {
		if r := recover(); r != nil {
			if se, ok := r.(specErr); ok {
				panic(specErr(fmt.Sprintf("%s:%d: %s", c.File, c.Line, string(se))))
			}
			panic(r)
		}
	}()
	return f()
}

func adaptNil(v Val, t types.Type) Val { return v }

func phiCount(b *ssa.BasicBlock) int {
	n := 0
	for _, ins := range b.Instrs {
		if _, ok := ins.(*ssa.Phi); ok {
			n++
		} else {
			break
		}
	}
	return n
}

func firstPos(b *ssa.BasicBlock) token.Pos {
	for _, ins := range b.Instrs {
		if p := ins.Pos(); p.IsValid() {
			return p
		}
		if d, ok := ins.(*ssa.DebugRef); ok && d.Expr != nil {
			return d.Expr.Pos()
		}
	}
	return token.NoPos
}

func clauseName(c *Clause, i int) string {
	if c.Name != "" {
		return c.Name
	}
	return fmt.Sprintf("%d", i+1)
}

func (br *bodyRun) loopClauses(ord int, kind string) []*Clause {
	var out []*Clause
	if br.ct == nil {
		return nil
	}
	for _, c := range br.ct.Loops[ord] {
		if c.Kind == kind {
			out = append(out, c)
		}
	}
	return out
}

func (br *bodyRun) edgeState(from, to *ssa.BasicBlock, predIdx int) *State {
	// the predIdx-th predecessor of `to` is `from`; find which successor slot of `from` it is:
	// count how many earlier preds of `to` are also `from`.
	occ := 0
	for i := 0; i < predIdx; i++ {
		if to.Preds[i] == from {
			occ++
		}
	}
	for j, s := range from.Succs {
		if s == to {
			if occ == 0 {
				return br.edges[edgeKey{from.Index, to.Index, j}]
			}
			occ--
		}
	}
	return nil
}

// havocLoop forgets what the loop body may change.
func (br *bodyRun) havocLoop(li *loopInfo, st *State) {
	fc := br.fc
	keys, all := br.modifiedKeys(li)
	if all {
		fc.havocAll(st)
		return
	}
	// the allocation counter may grow in the loop
	if br.loopAllocates(li) {
		na := fc.smt.declare("alloc", "Int")
		fc.assume(st, app(">=", na, st.alloc))
		st.alloc = na
	}
	allocAtEntry := st.alloc
	if br.loopAllocates(li) {
		// st.alloc was already advanced above; the entry value is the one before
		allocAtEntry = li.entrySt.alloc
	}
	for _, k := range keys {
		if k.freshOnly && !fc.isStableKey(k.key) && strings.HasPrefix(k.sort, "(Array Int ") {
			// objects that existed at loop entry keep their value
			fc.keySort[k.key] = k.sort
			h := fc.heapSym(st, k.key, k.sort)
			nh := fc.smt.declare("H_"+k.key, k.sort)
			r := fc.smt.freshName("r")
			fc.smt.addExtra(nh, fmt.Sprintf("(forall ((%s Int)) (! (=> (<= %s %s) (= (select %s %s) (select %s %s))) :pattern ((select %s %s))))", r, r, allocAtEntry, nh, r, h, r, nh, r))
			fc.refBound(nh, k.key, k.sort, st.alloc)
			fc.touched[k.key] = true
			st.heap[k.key] = nh
			continue
		}
		if strings.HasPrefix(k.key, "cell|") && len(k.regions) == 0 && len(k.objs) == 0 && !k.freshOnly && !fc.isStableKey(k.key) && br.loopCannotReachCells(li) {
			// the loop writes this cell type only through calls that cannot have the address of
			// this function's own variables: those keep their value
			fc.keySort[k.key] = k.sort
			old := fc.heapSym(st, k.key, k.sort)
			fc.havocKey(st, k.key, k.sort)
			h := st.heap[k.key]
			for _, b := range br.fn.Blocks {
				for _, ins := range b.Instrs {
					a, ok := ins.(*ssa.Alloc)
					if !ok || a.Comment == "" || br.storedInLoop(li, a) {
						continue
					}
					p, ok := fc.vals[a].(PtrV)
					if !ok || p.Kind != PObj || len(p.Path) != 0 {
						continue
					}
					if _, isStruct := p.Root.Underlying().(*types.Struct); isStruct {
						continue
					}
					pre := "cell|" + typeName(p.Root)
					if !strings.HasPrefix(k.key, pre) || (len(k.key) > len(pre) && k.key[len(pre)] != '#' && k.key[len(pre)] != '.') {
						continue
					}
					h = app("store", h, p.Ref, app("select", old, p.Ref))
				}
			}
			st.heap[k.key] = fc.smt.defineAlways("H_"+k.key, k.sort, h)
			continue
		}
		if len(k.objs) > 0 && !fc.isStableKey(k.key) {
			fc.keySort[k.key] = k.sort
			h := fc.heapSym(st, k.key, k.sort)
			inner := strings.TrimSuffix(strings.TrimPrefix(k.sort, "(Array Int "), ")")
			seen := map[string]bool{}
			for _, v := range k.objs {
				p, ok := fc.val(v).(PtrV)
				if !ok || seen[p.Ref] {
					continue
				}
				seen[p.Ref] = true
				h = app("store", h, p.Ref, fc.smt.declare("loopobj", inner))
			}
			fc.touched[k.key] = true
			st.heap[k.key] = fc.smt.defineAlways("H_"+k.key, k.sort, h)
			continue
		}
		if len(k.regions) > 0 && !fc.isStableKey(k.key) {
			// only the regions of loop-invariant slices are written: forget just those
			fc.keySort[k.key] = k.sort
			h := fc.heapSym(st, k.key, k.sort)
			inner := strings.TrimSuffix(strings.TrimPrefix(k.sort, "(Array Int "), ")")
			seen := map[string]bool{}
			for _, v := range k.regions {
				s, ok := fc.val(v).(SliceV)
				if !ok || seen[s.Ref] {
					continue
				}
				seen[s.Ref] = true
				na := fc.smt.declare("loopreg", inner)
				// "loop N modifies s[lo:hi]": elements outside the range keep their value
				for _, c := range br.loopClauses(li.ordinal, "modifies") {
					env := br.envAt(li.head, phiCount(li.head), st, nil)
					tv := env.eval(c.E)
					ms, ok := tv.V.(SliceV)
					if !ok || ms.Ref != s.Ref {
						continue
					}
					lo := fc.smt.define("wlo", bvsort(64), ms.Off)
					hi := fc.smt.define("whi", bvsort(64), app("bvadd", ms.Off, ms.Len))
					old := fc.smt.defineAlways("wold", inner, app("select", fc.heapSym(st, k.key, k.sort), s.Ref))
					j := fc.smt.freshName("j")
					fc.smt.addExtra(na, fmt.Sprintf("(forall ((%s (_ BitVec 64))) (! (=> (not (bvult (bvsub %s %s) (bvsub %s %s))) (= (select %s %s) (select %s %s))) :pattern ((select %s %s))))", j, j, lo, hi, lo, na, j, old, j, na, j))
					br.writeRanges = append(br.writeRanges, writeRange{key: k.key, ref: s.Ref, lo: lo, hi: hi, li: li})
					break
				}
				h = app("store", h, s.Ref, na)
			}
			fc.touched[k.key] = true
			st.heap[k.key] = fc.smt.defineAlways("H_"+k.key, k.sort, h)
			continue
		}
		fc.havocKey(st, k.key, k.sort)
	}
}

type keySort struct {
	key, sort string
	regions   []ssa.Value // when non-empty: only these slices' regions are written
	objs      []ssa.Value // when non-empty: only these (local) objects are written
	freshOnly bool        // written only while initialising objects allocated inside the loop
}

func (br *bodyRun) loopAllocates(li *loopInfo) bool {
	for b := range li.blocks {
		for _, ins := range b.Instrs {
			switch ins.(type) {
			case *ssa.Alloc, *ssa.MakeSlice, *ssa.MakeMap, *ssa.MakeChan, *ssa.MakeInterface, *ssa.MakeClosure, *ssa.Call, *ssa.Convert, *ssa.BinOp:
				return true
			}
		}
	}
	return false
}

// modifiedKeys: heap keys that instructions of the loop may write (syntactic).
func (br *bodyRun) modifiedKeys(li *loopInfo) ([]keySort, bool) {
	fc := br.fc
	set := map[string]string{}
	regs := map[string][]ssa.Value{}
	regSort := map[string]string{}
	objRegs := map[string][]ssa.Value{}
	fresh := map[string]string{}
	addFresh := func(space string, root types.Type, t types.Type) {
		for _, l := range leavesOf(t) {
			fresh[space+"|"+typeName(root)+l.Suffix] = arrSort(space == "elem", l.Sort)
		}
	}
	all := false
	outside := func(v ssa.Value) bool {
		if ins, ok := v.(ssa.Instruction); ok {
			return ins.Block() != nil && !li.blocks[ins.Block()]
		}
		return true
	}
	addType := func(space string, root types.Type, names string, t types.Type) {
		for _, l := range leavesOf(t) {
			set[space+"|"+typeName(root)+names+l.Suffix] = arrSort(space == "elem", l.Sort)
		}
	}
	var addrKeys func(v ssa.Value)
	addrKeys = func(v ssa.Value) {
		root, path, space, ok := staticAddr(v)
		if !ok {
			all = true
			return
		}
		names, t := pathNames(root, path)
		if space == "cell" {
			if _, isStruct := root.Underlying().(*types.Struct); isStruct {
				space = "fld"
			}
		}
		if space == "cell" {
			for _, l := range leavesOf(t) {
				set["cell|"+typeName(root)+l.Suffix] = arrSort(false, l.Sort)
			}
			return
		}
		addType(space, root, names, t)
	}
	var blocks []*ssa.BasicBlock
	for b := range li.blocks {
		blocks = append(blocks, b)
	}
	sort.Slice(blocks, func(i, j int) bool { return blocks[i].Index < blocks[j].Index })
	for _, b := range blocks {
		for _, ins := range b.Instrs {
			switch x := ins.(type) {
			case *ssa.Store:
				if ia, ok := x.Addr.(*ssa.IndexAddr); ok {
					if sl, isSlice := ia.X.Type().Underlying().(*types.Slice); isSlice && outside(ia.X) {
						for _, l := range leavesOf(sl.Elem()) {
							k := "elem|" + typeName(sl.Elem()) + l.Suffix
							regs[k] = append(regs[k], ia.X)
							regSort[k] = arrSort(true, l.Sort)
						}
						continue
					}
				}
				// store into a local variable that lives in memory: only that object changes
				base := x.Addr
				for {
					if fa, ok := base.(*ssa.FieldAddr); ok {
						base = fa.X
						continue
					}
					break
				}
				if a, ok := base.(*ssa.Alloc); ok {
					et := a.Type().(*types.Pointer).Elem()
					if _, isArr := et.Underlying().(*types.Array); !isArr {
						space := "cell"
						if _, isStruct := et.Underlying().(*types.Struct); isStruct {
							space = "fld"
						}
						if !outside(a) {
							addFresh(space, et, et)
						} else {
							for _, l := range leavesOf(et) {
								k := space + "|" + typeName(et) + l.Suffix
								objRegs[k] = append(objRegs[k], a)
								regSort[k] = arrSort(false, l.Sort)
							}
						}
						continue
					}
				}
				addrKeys(x.Addr)
			case *ssa.MapUpdate:
				mt := x.Map.Type().Underlying().(*types.Map)
				for _, ks := range fc.mapKeys(mt) {
					set[ks.key] = ks.sort
				}
			case *ssa.Alloc:
				// zero-initialisation of a fresh object writes its keys
				et := x.Type().(*types.Pointer).Elem()
				if at, ok := et.Underlying().(*types.Array); ok {
					addFresh("elem", at.Elem(), at.Elem())
				} else if _, ok := et.Underlying().(*types.Struct); ok {
					addFresh("fld", et, et)
				} else {
					for _, l := range leavesOf(et) {
						fresh["cell|"+typeName(et)+l.Suffix] = arrSort(false, l.Sort)
					}
				}
			case *ssa.MakeSlice:
				et := x.Type().Underlying().(*types.Slice).Elem()
				addFresh("elem", et, et)
			case *ssa.Convert:
				if _, ok := x.Type().Underlying().(*types.Slice); ok {
					addType("elem", types.Typ[types.Uint8], "", types.Typ[types.Uint8])
				} else if isString(x.Type()) && !isInt(x.X.Type()) {
					addType("elem", types.Typ[types.Uint8], "", types.Typ[types.Uint8])
				}
			case *ssa.BinOp:
				if isString(x.Type()) && x.Op == token.ADD {
					addType("elem", types.Typ[types.Uint8], "", types.Typ[types.Uint8])
				}
			case *ssa.MakeInterface:
				// boxing allocates an immutable box; no existing key is written
			case ssa.CallInstruction:
				ks, a := fc.callModifies(x)
				if a {
					all = true
				}
				for _, k := range ks {
					set[k.key] = k.sort
				}
				// a pointer to a by-value struct field passed to the callee: what the callee
				// writes there is named by the enclosing struct on this side (see havocInteriorArgs)
				for _, av := range x.Common().Args {
					root, path, space, ok := staticAddr(av)
					if !ok || len(path) == 0 || space != "fld" {
						continue
					}
					func() {
						defer func() { recover() }()
						names, t := pathNames(root, path)
						if _, isStruct := t.Underlying().(*types.Struct); !isStruct {
							return
						}
						for _, l := range leavesOf(t) {
							k := "fld|" + typeName(root) + names + l.Suffix
							if !fc.isStableKey(k) {
								set[k] = arrSort(false, l.Sort)
							}
						}
					}()
				}
			case *ssa.Send, *ssa.Select:
				// no heap effect in the model
			}
		}
	}
	var out []keySort
	for k, s := range set {
		out = append(out, keySort{key: k, sort: s})
	}
	for k, vs := range regs {
		if _, whole := set[k]; !whole {
			if _, f := fresh[k]; f {
				// both region stores and fresh initialisation: fall back to the whole key
				out = append(out, keySort{key: k, sort: regSort[k]})
				continue
			}
			out = append(out, keySort{key: k, sort: regSort[k], regions: vs})
		}
	}
	for k, vs := range objRegs {
		_, whole := set[k]
		_, f := fresh[k]
		_, r := regs[k]
		if whole || r {
			continue
		}
		if f {
			// fresh initialisation and a local object: keep it simple, whole key
			set[k] = regSort[k]
			out = append(out, keySort{key: k, sort: regSort[k]})
			continue
		}
		out = append(out, keySort{key: k, sort: regSort[k], objs: vs})
	}
	for k, srt := range fresh {
		if _, whole := set[k]; whole {
			continue
		}
		if _, o := objRegs[k]; o {
			continue
		}
		if _, r := regs[k]; r {
			continue
		}
		out = append(out, keySort{key: k, sort: srt, freshOnly: true})
	}
	sort.Slice(out, func(i, j int) bool { return out[i].key < out[j].key })
	return out, all
}

// staticAddr mirrors how the executor builds pointers: root type, field path, heap space.
func staticAddr(v ssa.Value) (root types.Type, path []int, space string, ok bool) {
	switch x := v.(type) {
	case *ssa.FieldAddr:
		r, p, s, ok := staticAddr(x.X)
		if !ok {
			return nil, nil, "", false
		}
		return r, append(append([]int(nil), p...), x.Field), s, true
	case *ssa.IndexAddr:
		switch t := x.X.Type().Underlying().(type) {
		case *types.Slice:
			return t.Elem(), nil, "elem", true
		case *types.Pointer:
			if at, ok := t.Elem().Underlying().(*types.Array); ok {
				return at.Elem(), nil, "elem", true
			}
		}
		return nil, nil, "", false
	}
	pt, isPtr := v.Type().Underlying().(*types.Pointer)
	if !isPtr {
		return nil, nil, "", false
	}
	if _, isStruct := pt.Elem().Underlying().(*types.Struct); isStruct {
		return pt.Elem(), nil, "fld", true
	}
	if at, isArr := pt.Elem().Underlying().(*types.Array); isArr {
		return at.Elem(), nil, "elem", true
	}
	return pt.Elem(), nil, "cell", true
}

// envAt builds the specification environment for a program point (block b, before instruction idx).
func (br *bodyRun) envAt(b *ssa.BasicBlock, idx int, st *State, phiOv map[*ssa.Phi]Val) *SpecEnv {
	fc := br.fc
	env := &SpecEnv{fc: fc, st: st, old: fc.pre, pkg: br.fn.Pkg.Pkg, vars: map[string]TV{}, alias: fc.eng.aliasFor(br.fn)}
	env.resolve = func(name string) (TV, bool) {
		if tv, ok := br.resolveAt(b, idx, name, st, phiOv); ok {
			return tv, true
		}
		return TV{}, false
	}
	env.resolveRet = func(site string) (TV, bool) {
		name, ord := site, 1
		if j := strings.Index(site, "#"); j >= 0 {
			fmt.Sscanf(site[j+1:], "%d", &ord)
			name = site[:j]
		}
		sites := br.callSites(name)
		if ord >= 1 && ord <= len(sites) {
			c2 := sites[ord-1]
			v := c2.Value()
			if v == nil {
				return TV{}, false
			}
			rv, ok := fc.vals[v]
			if !ok {
				// not executed before this point: an unconstrained value
				return TV{fc.fresh(v.Type(), "noret"), v.Type()}, true
			}
			// meaningful on the paths through that call site: guard with called(..)
			// when the site does not dominate this point
			return TV{rv, v.Type()}, true
		}
		return TV{}, false
	}
	env.resolveAtLoop = func(name string) (TV, bool) {
		// innermost dominating loop header with a phi for the variable
		for blk := b; blk != nil; blk = blk.Idom() {
			if _, isHead := br.loops[blk]; !isHead {
				continue
			}
			for _, ins := range blk.Instrs {
				phi, ok := ins.(*ssa.Phi)
				if !ok {
					break
				}
				if phi.Comment == name {
					if v, ok := fc.vals[phi]; ok {
						return TV{v, phi.Type()}, true
					}
				}
			}
		}
		// a variable that lives in a cell: its content in the state at the head of the
		// innermost enclosing loop (after the loop havoc, i.e. at the start of this iteration)
		for blk := b; blk != nil; blk = blk.Idom() {
			li, isHead := br.loops[blk]
			if !isHead || li.headSt == nil {
				continue
			}
			hs := li.headSt
			for _, a := range br.namedAllocs(name) {
				if p, ok := fc.vals[a].(PtrV); ok {
					et := a.Type().Underlying().(*types.Pointer).Elem()
					return TV{fc.load(hs, p, et), et}, true
				}
			}
		}
		return TV{}, false
	}
	env.oldResolve = func(name string) (TV, bool) {
		for _, p := range br.fn.Params {
			if p.Name() == name {
				return TV{fc.val(p), p.Type()}, true
			}
		}
		return TV{}, false
	}
	return env
}

// storedInLoop: some instruction of the loop stores directly into (a field of) the local a.
func (br *bodyRun) storedInLoop(li *loopInfo, a *ssa.Alloc) bool {
	for b := range li.blocks {
		for _, ins := range b.Instrs {
			if s, ok := ins.(*ssa.Store); ok {
				base := s.Addr
				for {
					if fa, ok := base.(*ssa.FieldAddr); ok {
						base = fa.X
						continue
					}
					break
				}
				if base == a {
					return true
				}
			}
		}
	}
	return false
}

// loopCannotReachCells: no call in the loop can have the address of this function's variables
// (no call to one of its closures, no dynamic call, no function value or cell pointer passed).
func (br *bodyRun) loopCannotReachCells(li *loopInfo) bool {
	for b := range li.blocks {
		for _, ins := range b.Instrs {
			ci, ok := ins.(ssa.CallInstruction)
			if !ok {
				continue
			}
			c := ci.Common()
			if !c.IsInvoke() {
				switch f := c.Value.(type) {
				case *ssa.Builtin:
				case *ssa.Function:
					if f.Parent() != nil {
						return false
					}
				default:
					return false
				}
			}
			for _, a := range c.Args {
				switch a.Type().Underlying().(type) {
				case *types.Signature:
					return false
				case *types.Pointer:
					if _, isAlloc := a.(*ssa.Alloc); isAlloc {
						return false
					}
				}
			}
		}
	}
	return true
}

// cellOf: the Alloc holding a source variable that lives in memory, if any.
func (br *bodyRun) cellOf(o types.Object) ssa.Value {
	if br.cells == nil {
		br.cells = map[types.Object]ssa.Value{}
		for _, b := range br.fn.Blocks {
			for _, ins := range b.Instrs {
				if dr, ok := ins.(*ssa.DebugRef); ok && dr.IsAddr && dr.Object() != nil {
					if a, ok := dr.X.(*ssa.Alloc); ok {
						br.cells[dr.Object()] = a
					}
				}
			}
		}
		br.cellsByName = map[string][]*ssa.Alloc{}
		for _, b := range br.fn.Blocks {
			for _, ins := range b.Instrs {
				if a, ok := ins.(*ssa.Alloc); ok && a.Comment != "" {
					br.cellsByName[a.Comment] = append(br.cellsByName[a.Comment], a)
				}
			}
		}
	}
	if c, ok := br.cells[o]; ok {
		return c
	}
	// go/ssa names the cell of a variable that lives in memory after the variable
	if as := br.cellsByName[o.Name()]; len(as) == 1 {
		if pt, ok := as[0].Type().(*types.Pointer); ok && types.Identical(pt.Elem(), o.Type()) {
			return as[0]
		}
	}
	return nil
}

func (br *bodyRun) resolveAt(b *ssa.BasicBlock, idx int, name string, st *State, phiOv map[*ssa.Phi]Val) (TV, bool) {
	fc := br.fc
	// "name#k": the loop-carried variable `name` of loop k (its header phi)
	if i := strings.Index(name, "#"); i > 0 {
		ord := 0
		fmt.Sscanf(name[i+1:], "%d", &ord)
		for h, li := range br.loops {
			if li.ordinal != ord {
				continue
			}
			for _, ins := range h.Instrs {
				phi, ok := ins.(*ssa.Phi)
				if !ok {
					break
				}
				if phi.Comment == name[:i] {
					if phiOv != nil {
						if ov, ok := phiOv[phi]; ok {
							return TV{ov, phi.Type()}, true
						}
					}
					if v, ok := fc.vals[phi]; ok {
						return TV{v, phi.Type()}, true
					}
				}
			}
		}
		return TV{}, false
	}
	for blk, i := b, idx; blk != nil; {
		for j := i - 1; j >= 0; j-- {
			switch x := blk.Instrs[j].(type) {
			case *ssa.DebugRef:
				if o := x.Object(); o != nil && o.Name() == name {
					if v, isVar := o.(*types.Var); !isVar || v.IsField() {
						// (a selector x.f leaves a debug reference for the field f: not a variable)
						continue
					}
					if x.IsAddr {
						p, ok := fc.val(x.X).(PtrV)
						if !ok {
							continue
						}
						return TV{fc.load(st, p, o.Type()), o.Type()}, true
					}
					// a variable that lives in memory (captured by a closure, address taken): its
					// current value is what its cell holds, not the value of this occurrence
					if cell := br.cellOf(o); cell != nil {
						if p, ok := fc.vals[cell].(PtrV); ok {
							return TV{fc.load(st, p, o.Type()), o.Type()}, true
						}
					}
					v := fc.val(x.X)
					if ph, ok := x.X.(*ssa.Phi); ok && phiOv != nil {
						if ov, ok := phiOv[ph]; ok {
							v = ov
						}
					}
					return TV{v, x.X.Type()}, true
				}
			case *ssa.Phi:
				if x.Comment == name {
					if phiOv != nil {
						if ov, ok := phiOv[x]; ok {
							return TV{ov, x.Type()}, true
						}
					}
					return TV{fc.val(x), x.Type()}, true
				}
			}
		}
		blk = blk.Idom()
		if blk != nil {
			i = len(blk.Instrs)
		}
	}
	for _, p := range br.fn.Params {
		if p.Name() == name {
			return TV{fc.val(p), p.Type()}, true
		}
	}
	for _, p := range br.fn.FreeVars {
		if p.Name() == name {
			// free variables are pointers to the captured variable
			pv, ok := fc.val(p).(PtrV)
			if ok {
				et := p.Type().(*types.Pointer).Elem()
				return TV{fc.load(st, pv, et), et}, true
			}
		}
	}
	return TV{}, false
}

func (br *bodyRun) runBlock(b *ssa.BasicBlock, st *State) {
	fc := br.fc
	for idx, ins := range b.Instrs {
		if _, ok := ins.(*ssa.Phi); ok {
			continue
		}
		if p := ins.Pos(); p.IsValid() {
			fc.curPos = p
		}
		br.userAsserts(b, idx, ins, st, "before")
		switch x := ins.(type) {
		case *ssa.If:
			c := fc.val(x.Cond).(Scalar).T
			c = fc.smt.define("cond", "Bool", c)
			br.setEdge(b, 0, st, c)
			br.setEdge(b, 1, st, not(c))
			return
		case *ssa.Jump:
			br.setEdge(b, 0, st, "true")
			return
		case *ssa.Return:
			var rs []Val
			for _, r := range x.Results {
				rs = append(rs, fc.val(r))
			}
			br.onReturn(st, rs, x)
			return
		case *ssa.Panic:
			if fc.isExpectedPanic(x) {
				return
			}
			fc.oblige(st, "false", br.prefix+fc.ordName("panic", panicText(x)), "panic", x.Pos(), "explicit panic is unreachable")
			return
		case *ssa.RunDefers:
			br.runDefers(st, b, idx)
		case *ssa.Defer:
			br.addDefer(st, x)
		default:
			br.step(st, ins, b, idx)
			if ci, ok := ins.(ssa.CallInstruction); ok && br.ct != nil && len(br.ct.Asserts) > 0 {
				if n := calleeName(ci); n != "" {
					key := fmt.Sprintf("called|%s#%d", n, br.siteOrdinal(ci, n))
					fc.keySort[key] = "Bool"
					st.heap[key] = "true"
				}
			}
		}
		br.applyRelies(b, idx, ins, st)
		br.userAsserts(b, idx, ins, st, "after")
	}
}

// applyRelies: at a blocking select the goroutine may have been suspended; the locations a rely
// clause names may have been changed by other goroutines, and the clause's condition (an
// assumption about those goroutines, reported as such) holds afterwards. 'selected' is the
// index of the case that fired.
func (br *bodyRun) applyRelies(b *ssa.BasicBlock, idx int, ins ssa.Instruction, st *State) {
	if br.ct == nil || len(br.ct.Relies) == 0 {
		return
	}
	fc := br.fc
	sel, isSel := ins.(*ssa.Select)
	ci, isCall := ins.(ssa.CallInstruction)
	if !isSel && !isCall {
		return
	}
	var sels []*ssa.Select
	for _, bb := range br.fn.Blocks {
		for _, in2 := range bb.Instrs {
			if s2, ok := in2.(*ssa.Select); ok {
				sels = append(sels, s2)
			}
		}
	}
	sort.SliceStable(sels, func(i, j int) bool { return sels[i].Pos() < sels[j].Pos() })
	ord := 0
	for k, s2 := range sels {
		if s2 == sel {
			ord = k + 1
		}
	}
	for _, r := range br.ct.Relies {
		fs := strings.Fields(r.At)
		switch {
		case len(fs) == 2 && fs[0] == "after" && strings.HasPrefix(fs[1], "select"):
			if !isSel {
				continue
			}
			if j := strings.Index(fs[1], "#"); j >= 0 {
				want := 0
				fmt.Sscanf(fs[1][j+1:], "%d", &want)
				if want != ord {
					continue
				}
			}
		case len(fs) == 3 && fs[0] == "after" && fs[1] == "call":
			if !isCall {
				continue
			}
			name, want := fs[2], 0
			if j := strings.Index(name, "#"); j >= 0 {
				fmt.Sscanf(name[j+1:], "%d", &want)
				name = name[:j]
			}
			if calleeName(ci) != name || (want != 0 && want != br.siteOrdinal(ci, name)) {
				continue
			}
		default:
			sfail("rely anchor %q: only 'after select[#k]' and 'after call f[#k]' are supported", r.At)
		}
		env := br.envAt(b, idx, st, nil)
		pre := st
		for _, h := range r.Havoc {
			for _, tg := range fc.assignTargets(env, h) {
				fc.havocTarget(st, pre, tg)
			}
		}
		env = br.envAt(b, idx, st, nil)
		if isSel {
			if tup, ok := fc.vals[sel].(TupleV); ok && len(tup) > 0 {
				env.vars["selected"] = TV{tup[0], types.Typ[types.Int]}
			}
		}
		if isCall {
			if v := ci.Value(); v != nil {
				if rv, ok := fc.vals[v]; ok {
					env.vars["ret"] = TV{rv, v.Type()}
				}
			}
		}
		fc.assume(st, fc.hyp(env, r.E))
		fc.note("rely (assumed guarantee of other goroutines) in %s: %s", fc.fnKey(), r.Src)
	}
}

func panicText(p *ssa.Panic) string {
	if mi, ok := p.X.(*ssa.MakeInterface); ok {
		if c, ok := mi.X.(*ssa.Const); ok && c.Value != nil && c.Value.Kind() == constant.String {
			s := constant.StringVal(c.Value)
			if len(s) > 24 {
				s = s[:24]
			}
			return sanitizeRe.ReplaceAllString(s, "_")
		}
	}
	return ""
}

func (fc *FnCtx) isExpectedPanic(p *ssa.Panic) bool { return false }

func (br *bodyRun) setEdge(b *ssa.BasicBlock, slot int, st *State, cond string) {
	fc := br.fc
	to := b.Succs[slot]
	es := st.clone()
	if cond != "true" {
		es.guard = fc.smt.defineAlways("g", "Bool", and(st.guard, cond))
		es.lite = fc.smt.defineAlways("gl", "Bool", and(st.liteG(), cond))
	}
	if isBackEdge(b, to) {
		li := br.loops[to]
		// invariant must hold again, with the header phis taking this edge's values
		predIdx := -1
		occ := 0
		for j := 0; j < slot; j++ {
			if b.Succs[j] == to {
				occ++
			}
		}
		for i, p := range to.Preds {
			if p == b {
				if occ == 0 {
					predIdx = i
					break
				}
				occ--
			}
		}
		ov := map[*ssa.Phi]Val{}
		for _, ins := range to.Instrs {
			phi, ok := ins.(*ssa.Phi)
			if !ok {
				break
			}
			ov[phi] = fc.val(phi.Edges[predIdx])
		}
		// case-split hints: for a loop counter that goes from p to p+1, a skolemised index s with
		// s <= p+1 is either p+1 or <= p (a valid bit-vector fact, given to the solver as a hint)
		fc.splitHints = nil
		for phi, nv := range ov {
			if !isInt(phi.Type()) || intWidth(phi.Type()) != 64 {
				continue
			}
			old, ok1 := fc.vals[phi].(Scalar)
			nw, ok2 := nv.(Scalar)
			if ok1 && ok2 {
				fc.splitHints = append(fc.splitHints, [3]string{old.T, nw.T, phi.Comment})
			}
		}
		for i, c := range br.loopClauses(li.ordinal, "invariant") {
			env := br.envAt(to, phiCount(to), es, ov)
			fc.prove(env, c.E, es, fmt.Sprintf("%sinv-keep:%d:%s", br.prefix, li.ordinal, clauseName(c, i)), "inv-keep", firstPos(to), c.Src)
		}
		fc.splitHints = nil
		for i, c := range br.loopClauses(li.ordinal, "decreases") {
			// measure strictly decreases and is bounded below (unsigned or >= 0)
			envNew := br.envAt(to, phiCount(to), es, ov)
			envOld := br.envAt(to, phiCount(to), br.blockSt[to], nil)
			nv := defaultType(envNew.eval(c.E))
			ovv := defaultType(envOld.eval(c.E))
			var goal string
			if isUnsigned(nv.T) {
				goal = app("bvult", nv.V.(Scalar).T, ovv.V.(Scalar).T)
			} else {
				goal = and(app("bvslt", nv.V.(Scalar).T, ovv.V.(Scalar).T), app("bvsge", ovv.V.(Scalar).T, bvlit(0, intWidth(ovv.T))))
			}
			fc.oblige(es, goal, fmt.Sprintf("%sdecreases:%d:%s", br.prefix, li.ordinal, clauseName(c, i)), "decreases", firstPos(to), c.Src)
		}
		return
	}
	br.edges[edgeKey{b.Index, to.Index, slot}] = es
}

// ---------------------------------------------------------------------------------------
// values

func (fc *FnCtx) nameVal(t types.Type, v Val, hint string) Val {
	switch v.(type) {
	case PtrV, FuncV:
		if p, ok := v.(PtrV); ok {
			p.Ref = fc.smt.define(hint, "Int", p.Ref)
			if p.Kind == PElem {
				p.Idx = fc.smt.define(hint+"_i", bvsort(64), p.Idx)
			}
			return p
		}
		return v
	}
	ls := leavesOf(t)
	ts := flatten(t, v)
	for i := range ts {
		ts[i] = fc.smt.define(hint+ls[i].Suffix, ls[i].Sort, ts[i])
	}
	return unflatten(t, &ts)
}

func (fc *FnCtx) val(v ssa.Value) Val {
	if x, ok := fc.vals[v]; ok {
		return x
	}
	switch x := v.(type) {
	case *ssa.Const:
		return fc.constVal(x)
	case *ssa.Global:
		return fc.eng.globalPtr(x.Object())
	case *ssa.Function:
		return FuncV{Fn: x}
	case *ssa.Builtin:
		return FuncV{Fn: x}
	}
	unsup("value %s (%T) used before definition (irreducible control flow or unsupported instruction)", v.Name(), v)
	return nil
}

func (fc *FnCtx) constVal(c *ssa.Const) Val {
	t := c.Type()
	if c.Value == nil {
		if b, ok := t.(*types.Basic); ok && b.Kind() == types.UntypedNil {
			return Scalar{"0"}
		}
		return zeroVal(t)
	}
	switch {
	case isBool(t):
		return Scalar{fmt.Sprint(constant.BoolVal(c.Value))}
	case isInt(t):
		bi, ok := new(big.Int).SetString(constant.ToInt(c.Value).ExactString(), 10)
		if !ok {
			unsup("integer constant %s", c.Value)
		}
		return Scalar{bigToBV(bi, intWidth(t))}
	case isFloat(t):
		return Scalar{fc.eng.floatConst(c.Value.ExactString())}
	case isString(t):
		return fc.eng.stringConst(fc, constant.StringVal(c.Value))
	}
	unsup("constant of type %s", t)
	return nil
}

// ---------------------------------------------------------------------------------------
// obligations

func (fc *FnCtx) ordName(kind, text string) string {
	base := kind
	if text != "" {
		base = kind + ":" + text
	}
	fc.counts[base]++
	if fc.counts[base] == 1 && text != "" {
		return base
	}
	if text == "" {
		return fmt.Sprintf("%s#%d", kind, fc.counts[base])
	}
	return fmt.Sprintf("%s#%d", base, fc.counts[base])
}

func (fc *FnCtx) oblige(st *State, goal, name, kind string, pos token.Pos, desc string) {
	if fc.usedNames == nil {
		fc.usedNames = map[string]int{}
	}
	fc.usedNames[name]++
	if k := fc.usedNames[name]; k > 1 {
		name = fmt.Sprintf("%s@%d", name, k)
	}
	if goal == "true" {
		// trivially true: still counted, discharged by the generator
		fc.obs = append(fc.obs, &Obligation{Name: name, Kind: kind, Fn: fc.fnKey(), Pos: fc.posStr(pos), Desc: desc,
			Guard: st.guard, Goal: goal, Expect: "unsat", Result: SolverResult{Status: "unsat", Solver: "trivial"}})
		return
	}
	// light mode: only assertions, effect preconditions and the loop invariants the contract
	// itself supplies (they are assumed at the loop head, so they must be proved) are obligations
	if fc.quiet > 0 && !contractDerived(kind) {
		return
	}
	// (postconditions of a light contract are assumed by its callers, so they are proved too)
	if fc.light && (kind != "pre-of" && kind != "assert" && kind != "inv-entry" && kind != "inv-keep" && kind != "post" || strings.HasSuffix(name, "receiver-non-nil")) {
		return
	}
	ob := &Obligation{Name: name, Kind: kind, Fn: fc.fnKey(), Pos: fc.posStr(pos), Desc: desc, Guard: st.guard, Goal: goal, Expect: "unsat", Clause: fc.curClause}
	ob.Query = fc.buildQuery(st.guard, not(goal), false)
	ob.QueryLite = fc.buildQuery(st.liteG(), not(goal), true)
	fc.obs = append(fc.obs, ob)
	// later code on this path may rely on the checked fact
	fc.assume(st, goal)
}

func (fc *FnCtx) cover(st *State, name string, pos token.Pos, desc string) {
	ob := &Obligation{Name: name, Kind: "cover", Fn: fc.fnKey(), Pos: fc.posStr(pos), Desc: desc, Guard: st.guard, Goal: "true", Expect: "sat"}
	ob.Query = fc.buildQuery(st.guard, "true", false)
	fc.obs = append(fc.obs, ob)
}

func (fc *FnCtx) buildQuery(guard, negGoal string, lite bool) string {
	var b strings.Builder
	fc.smt.liteSlice = lite
	defer func() { fc.smt.liteSlice = false }()
	body := fc.smt.slice(guard, negGoal)
	// congruence for opaque content functions among applications present in the query
	cong := ""
	if !lite {
		cong = fc.congruence(body + guard + negGoal)
	}
	if !lite {
		if pa := fc.pairAxioms(body + guard + negGoal); pa != "" {
			cong += pa
		}
	}
	if cong != "" {
		body = fc.smt.slice(guard, negGoal, cong)
	}
	b.WriteString(fc.eng.header())
	b.WriteString(body)
	if cong != "" {
		b.WriteString(cong)
	}
	b.WriteString("(assert " + guard + ")\n")
	if negGoal != "true" {
		b.WriteString("(assert " + negGoal + ")\n")
	}
	return b.String()
}

// prove decomposes a goal expression: conjunctions are split, implications move to the
// hypotheses, universally quantified goals are skolemised.
func (fc *FnCtx) prove(env *SpecEnv, e *Expr, st *State, name, kind string, pos token.Pos, src string) {
	defer fc.specRecover(name, src)
	fc.curClause = e
	defer func() { fc.curClause = nil }()
	n := 0
	var rec func(env *SpecEnv, e *Expr, st *State)
	rec = func(env *SpecEnv, e *Expr, st *State) {
		switch {
		case e.K == "bin" && e.Op == "&&":
			rec(env, e.X[0], st)
			rec(env, e.X[1], st)
			return
		case e.K == "bin" && e.Op == "==>":
			s2 := st.clone()
			fc.assume(s2, env.inState(s2).hypTerm(e.X[0]))
			e2 := env.inState(s2)
			rec(e2, e.X[1], s2)
			return
		case e.K == "bin" && e.Op == "<==>":
			rec(env, &Expr{K: "bin", Op: "==>", X: []*Expr{e.X[0], e.X[1]}}, st)
			rec(env, &Expr{K: "bin", Op: "==>", X: []*Expr{e.X[1], e.X[0]}}, st)
			return
		case e.K == "bin" && e.Op == "==" && isBytesLike(e.X[0]) && isBytesLike(e.X[1]):
			// content equality: lengths, then one skolemised index
			ev := env.inState(st)
			fa := ev.eval(e.X[0]).V.(FrozenV)
			fb := ev.eval(e.X[1]).V.(FrozenV)
			n++
			nm := name
			if n > 1 {
				nm = fmt.Sprintf("%s#%d", name, n)
			}
			fc.oblige(st.clone(), eq(fa.Len, fb.Len), nm+":len", kind, pos, src)
			s2 := st.clone()
			i := fc.smt.declare("sk_i", bvsort(64))
			fc.assume(s2, and(eq(fa.Len, fb.Len), app("bvsle", bvlit(0, 64), i), app("bvslt", i, fa.Len)))
			fc.oblige(s2, eq(app("select", fa.Arr, app("bvadd", fa.Off, i)), app("select", fb.Arr, app("bvadd", fb.Off, i))), nm+":content", kind, pos, src)
			return
		case e.K == "quant" && e.Op == "forall":
			n2 := env
			s2 := st.clone()
			for _, b := range e.Vars {
				t := env.resolveType(b.Type)
				v := fc.fresh(t, "sk_"+b.Name)
				n2 = n2.with(b.Name, TV{v, t})
				if sv, ok := v.(Scalar); ok && isInt(t) && intWidth(t) == 64 && !isUnsigned(t) {
					for _, h := range fc.splitHints {
						one := app("bvadd", h[0], bvlit(1, 64))
						// valid for all 64-bit values (also when p+1 wraps)
						fc.assume(s2, implies(and(eq(h[1], one), app("bvsle", sv.T, h[1])), or(eq(sv.T, h[1]), app("bvsle", sv.T, h[0]))))
						fc.assume(s2, implies(and(eq(h[1], one), app("bvslt", sv.T, h[1])), or(eq(sv.T, h[0]), app("bvslt", sv.T, h[0]))))
					}
				}
			}
			// fork on the position of the (single) skolemised index relative to the loop counter:
			// the "new element" cases usually need no quantified hypothesis at all
			if len(fc.splitHints) > 0 && len(e.Vars) == 1 {
				if sv, ok := n2.vars[e.Vars[0].Name].V.(Scalar); ok && isInt(n2.vars[e.Vars[0].Name].T) && intWidth(n2.vars[e.Vars[0].Name].T) == 64 {
					h := fc.splitHints[0]
					for _, hh := range fc.splitHints {
						if strings.Contains(src, hh[2]) {
							h = hh
						}
					}
					cases := []string{eq(sv.T, h[1]), and(not(eq(sv.T, h[1])), eq(sv.T, h[0])), and(not(eq(sv.T, h[1])), not(eq(sv.T, h[0])))}
					for _, c := range cases {
						s3 := s2.clone()
						fc.assume(s3, c)
						rec(n2.inState(s3), e.X[0], s3)
					}
					return
				}
			}
			n2 = n2.inState(s2)
			rec(n2, e.X[0], s2)
			return
		}
		n++
		nm := name
		if n > 1 {
			nm = fmt.Sprintf("%s#%d", name, n)
		}
		goal := env.inState(st).evalBool(e)
		s2 := st.clone()
		fc.oblige(s2, goal, nm, kind, pos, src)
	}
	rec(env.inState(st), e, st)
	// the whole fact may be assumed afterwards
	fc.assume(st, fc.hyp(env.inState(st), e))
}

// isBytesLike: bytes(x) or old(bytes(x)).
func isBytesLike(e *Expr) bool {
	if isBytesCall(e) {
		return true
	}
	return e.K == "call" && e.X[0].K == "id" && e.X[0].Name == "old" && len(e.X) == 2 && isBytesLike(e.X[1])
}

func (fc *FnCtx) specRecover(name, src string) {
	if r := recover(); r != nil {
		if se, ok := r.(specErr); ok {
			panic(specErr(fmt.Sprintf("in %s [%s]: %s", name, src, string(se))))
		}
		panic(r)
	}
}

// hyp evaluates an expression as a hypothesis.
func (fc *FnCtx) hyp(env *SpecEnv, e *Expr) string {
	return env.hypTerm(e)
}

func (env *SpecEnv) hypTerm(e *Expr) string {
	n := *env
	n.hyp = true
	// top-level existentials are skolemised
	if e.K == "quant" && e.Op == "exists" {
		n2 := &n
		for _, b := range e.Vars {
			t := env.resolveType(b.Type)
			v := env.fc.fresh(t, "ex_"+b.Name)
			n2 = n2.with(b.Name, TV{v, t})
		}
		return n2.hypTerm(e.X[0])
	}
	if e.K == "bin" && e.Op == "&&" {
		return and(n.hypTerm(e.X[0]), n.hypTerm(e.X[1]))
	}
	return n.evalBool(e)
}

func (fc *FnCtx) fnKey() string {
	if fc.fn == nil {
		return "lemmas"
	}
	return fc.eng.fnDisplay(fc.fn)
}

// srcText returns a compact rendering of the smallest index/slice expression at pos.
func (fc *FnCtx) srcText(fn *ssa.Function, pos token.Pos) string {
	syn := fn.Syntax()
	if syn == nil || !pos.IsValid() {
		return ""
	}
	var best ast.Node
	ast.Inspect(syn, func(n ast.Node) bool {
		if n == nil {
			return false
		}
		if n.Pos() <= pos && pos < n.End() {
			switch x := n.(type) {
			case *ast.IndexExpr:
				if x.Lbrack == pos {
					best = n
				}
			case *ast.SliceExpr:
				if x.Lbrack == pos {
					best = n
				}
			}
			return true
		}
		return false
	})
	if best == nil {
		return ""
	}
	var buf bytes.Buffer
	printer.Fprint(&buf, fc.eng.fset, best)
	s := strings.Join(strings.Fields(buf.String()), "")
	if len(s) > 40 {
		s = s[:40]
	}
	return s
}
