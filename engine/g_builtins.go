package main

// Builtins, native models (locks, atomics, assertions), maps, ghosts.

import (
	"fmt"
	"go/types"
	"strings"

	"golang.org/x/tools/go/ssa"
)

func (br *bodyRun) builtin(st *State, f *ssa.Builtin, c *ssa.CallCommon, args []Val, rt types.Type, x ssa.CallInstruction) Val {
	fc := br.fc
	switch f.Name() {
	case "len", "cap":
		switch v := args[0].(type) {
		case SliceV:
			if f.Name() == "len" {
				return Scalar{v.Len}
			}
			return Scalar{v.Cap}
		case Scalar:
			if mt, ok := c.Args[0].Type().Underlying().(*types.Map); ok {
				return Scalar{fc.mapLen(st, v.T, mt)}
			}
			// channel length
			return fc.freshTyped(st, rt, "chanlen")
		case ArrV:
			at := c.Args[0].Type().Underlying().(*types.Array)
			return Scalar{bvlit(uint64(at.Len()), 64)}
		case PtrV:
			if v.Kind == PArr {
				at := v.Root.Underlying().(*types.Array)
				return Scalar{bvlit(uint64(at.Len()), 64)}
			}
		}
		unsup("len/cap of %T", args[0])
	case "append":
		return br.appendOp(st, c, args)
	case "copy":
		dst := args[0].(SliceV)
		src := args[1].(SliceV)
		et := elemType(c.Args[0].Type())
		n := fc.smt.define("cpn", bvsort(64), ite(app("bvslt", src.Len, dst.Len), src.Len, dst.Len))
		fc.memcpy(st, et, dst, bvlit(0, 64), src, bvlit(0, 64), n)
		return Scalar{n}
	case "delete":
		mt := c.Args[0].Type().Underlying().(*types.Map)
		fc.mapDelete(st, args[0].(Scalar).T, mt, args[1])
		return nil
	case "min", "max":
		t := c.Args[0].Type()
		op := "bvsle"
		if isUnsigned(t) {
			op = "bvule"
		}
		r := args[0].(Scalar).T
		for _, a := range args[1:] {
			cnd := app(op, r, a.(Scalar).T)
			if f.Name() == "max" {
				cnd = not(cnd)
			}
			r = ite(cnd, r, a.(Scalar).T)
		}
		return Scalar{r}
	case "recover":
		unsup("recover()")
	case "ssa:wrapnilchk":
		return args[0]
	case "print", "println":
		return nil
	case "close":
		return nil
	case "clear":
		unsup("builtin clear")
	}
	unsup("builtin %s", f.Name())
	return nil
}

func (br *bodyRun) appendOp(st *State, c *ssa.CallCommon, args []Val) Val {
	fc := br.fc
	s := args[0].(SliceV)
	t := args[1].(SliceV)
	st0T := c.Args[0].Type()
	et := elemType(st0T)
	if isString(c.Args[1].Type()) {
		et = types.Typ[types.Uint8]
	}
	newLen := fc.smt.define("applen", bvsort(64), app("bvadd", s.Len, t.Len))
	fits := fc.smt.define("fits", "Bool", app("bvsle", newLen, s.Cap))
	// in place
	sIn := st.clone()
	fc.assume(sIn, fits)
	fc.memcpy(sIn, et, SliceV{s.Ref, s.Off, newLen, s.Cap}, s.Len, t, bvlit(0, 64), t.Len)
	rIn := SliceV{s.Ref, s.Off, newLen, s.Cap}
	// grow
	sGr := st.clone()
	fc.assume(sGr, not(fits))
	nc := fc.smt.declare("newcap", bvsort(64))
	fc.assume(sGr, and(app("bvsle", newLen, nc), app("bvsle", nc, bvlit(1<<47, 64))))
	r := fc.newRegion(sGr, et, newLen, nc, "grow")
	fc.memcpy(sGr, et, r, bvlit(0, 64), s, bvlit(0, 64), s.Len)
	fc.memcpy(sGr, et, r, s.Len, t, bvlit(0, 64), t.Len)
	m := br.mergeStates([]*State{sIn, sGr})
	*st = *m
	// append(nil, empty...) stays nil: handled by fits (0 <= 0) in place
	res := iteVal(st0T, fits, rIn, SliceV{r.Ref, r.Off, r.Len, r.Cap})
	return fc.nameVal(st0T, res, "app")
}

// ---------------------------------------------------------------------------------------
// maps: map|<type>|present : Array Int (Array K Bool); |val<leaf> ; |len : Array Int BV64

func (fc *FnCtx) mapKeySort(mt *types.Map) string {
	kt := mt.Key()
	if isString(kt) {
		return bvsort(64) // content identity, see strId
	}
	ls := leavesOf(kt)
	if len(ls) != 1 {
		unsup("map key type %s", kt)
	}
	return ls[0].Sort
}

func (fc *FnCtx) mapKeys(mt *types.Map) []keySort {
	ks := fc.mapKeySort(mt)
	name := "map|" + typeName(mt)
	out := []keySort{mkKS(name + "|present", "(Array Int (Array " + ks + " Bool))"), mkKS(name + "|len", "(Array Int (_ BitVec 64))")}
	for _, l := range leavesOf(mt.Elem()) {
		out = append(out, mkKS(name + "|val" + l.Suffix, "(Array Int (Array " + ks + " " + l.Sort + "))"))
	}
	return out
}

func (fc *FnCtx) mapKeyTerm(st *State, mt *types.Map, k Val) string {
	if isString(mt.Key()) {
		s := k.(SliceV)
		return fc.strId(st, s)
	}
	return flatten(mt.Key(), k)[0]
}

// strId: an injective-on-content identity for strings used as map keys.
func (fc *FnCtx) strId(st *State, s SliceV) string {
	et := types.Typ[types.Uint8]
	sf := fc.eng.cs.Specs["strid"]
	if sf == nil {
		unsup("string map keys need the spec function strid")
	}
	env := &SpecEnv{fc: fc, st: st, pkg: fc.fn.Pkg.Pkg, vars: map[string]TV{}}
	fv := FrozenV{fc.regionArr(st, s, et), s.Off, s.Len}
	tv := fc.opaqueApp(env, sf, []TV{{fv, types.NewSlice(et)}}, types.Typ[types.Int])
	_ = tv
	return tv.V.(Scalar).T
}

func (fc *FnCtx) mapLookup(st *State, m string, mt *types.Map, k Val) (string, Val) {
	kt := fc.mapKeyTerm(st, mt, k)
	ks := fc.mapKeySort(mt)
	name := "map|" + typeName(mt)
	ph := fc.heapSym(st, name+"|present", "(Array Int (Array "+ks+" Bool))")
	present := and(not(eq(m, "0")), app("select", app("select", ph, m), kt))
	present = fc.smt.define("present", "Bool", present)
	ls := leavesOf(mt.Elem())
	ts := make([]string, len(ls))
	for i, l := range ls {
		vh := fc.heapSym(st, name+"|val"+l.Suffix, "(Array Int (Array "+ks+" "+l.Sort+"))")
		ts[i] = ite(present, app("select", app("select", vh, m), kt), zeroTerm(l.Sort))
	}
	return present, unflatten(mt.Elem(), &ts)
}

func (fc *FnCtx) mapLen(st *State, m string, mt *types.Map) string {
	name := "map|" + typeName(mt)
	lh := fc.heapSym(st, name+"|len", "(Array Int (_ BitVec 64))")
	return ite(eq(m, "0"), bvlit(0, 64), app("select", lh, m))
}

func (fc *FnCtx) mapStore(st *State, m string, mt *types.Map, k, v Val) {
	kt := fc.mapKeyTerm(st, mt, k)
	ks := fc.mapKeySort(mt)
	name := "map|" + typeName(mt)
	ph := fc.heapSym(st, name+"|present", "(Array Int (Array "+ks+" Bool))")
	lh := fc.heapSym(st, name+"|len", "(Array Int (_ BitVec 64))")
	was := app("select", app("select", ph, m), kt)
	fc.setHeap(st, name+"|len", app("store", lh, m, ite(was, app("select", lh, m), app("bvadd", app("select", lh, m), bvlit(1, 64)))))
	fc.setHeap(st, name+"|present", app("store", ph, m, app("store", app("select", ph, m), kt, "true")))
	ls := leavesOf(mt.Elem())
	ts := flatten(mt.Elem(), v)
	for i, l := range ls {
		key := name + "|val" + l.Suffix
		vh := fc.heapSym(st, key, "(Array Int (Array "+ks+" "+l.Sort+"))")
		fc.setHeap(st, key, app("store", vh, m, app("store", app("select", vh, m), kt, ts[i])))
	}
}

func (fc *FnCtx) mapDelete(st *State, m string, mt *types.Map, k Val) {
	kt := fc.mapKeyTerm(st, mt, k)
	ks := fc.mapKeySort(mt)
	name := "map|" + typeName(mt)
	ph := fc.heapSym(st, name+"|present", "(Array Int (Array "+ks+" Bool))")
	lh := fc.heapSym(st, name+"|len", "(Array Int (_ BitVec 64))")
	was := and(not(eq(m, "0")), app("select", app("select", ph, m), kt))
	fc.setHeap(st, name+"|len", app("store", lh, m, ite(was, app("bvsub", app("select", lh, m), bvlit(1, 64)), app("select", lh, m))))
	fc.setHeap(st, name+"|present", app("store", ph, m, app("store", app("select", ph, m), kt, "false")))
}

func (fc *FnCtx) makeMap(st *State, mt *types.Map) Val {
	ref := fc.newRef(st, "map")
	ks := fc.mapKeySort(mt)
	name := "map|" + typeName(mt)
	ph := fc.heapSym(st, name+"|present", "(Array Int (Array "+ks+" Bool))")
	lh := fc.heapSym(st, name+"|len", "(Array Int (_ BitVec 64))")
	fc.setHeap(st, name+"|present", app("store", ph, ref, "((as const (Array "+ks+" Bool)) false)"))
	fc.setHeap(st, name+"|len", app("store", lh, ref, bvlit(0, 64)))
	return Scalar{ref}
}

// ---------------------------------------------------------------------------------------
// held(m) ghost

func (fc *FnCtx) heldKey(p PtrV) string {
	prefix, elem := keyBase(p)
	if elem {
		unsup("lock inside a slice element")
	}
	return "ghost|held|" + prefix
}

// havocHeld forgets which locks are held (after a call whose locking behaviour is unknown).
func (fc *FnCtx) havocHeld(st *State) {
	for k, srt := range fc.keySort {
		if strings.HasPrefix(k, "ghost|held|") {
			fc.havocKey(st, k, srt)
		}
	}
}

func (fc *FnCtx) heldGet(st *State, p PtrV) string {
	h := fc.heapSym(st, fc.heldKey(p), "(Array Int Bool)")
	return app("select", h, p.Ref)
}

func (fc *FnCtx) heldSet(st *State, p PtrV, v string) {
	key := fc.heldKey(p)
	h := fc.heapSym(st, key, "(Array Int Bool)")
	fc.setHeap(st, key, app("store", h, p.Ref, v))
}

// ---------------------------------------------------------------------------------------
// globals

func (fc *FnCtx) loadGlobal(st *State, o types.Object, p PtrV) Val {
	t := o.Type()
	name := o.Pkg().Path() + "." + o.Name()
	if fc.eng.isConstGlobal(o) {
		return fc.eng.constGlobal(fc, o)
	}
	fc.note("global variable %s read as an ordinary heap cell", name)
	v := fc.load(st, p, t)
	fc.assume(st, fc.typeInv(st, t, v))
	return v
}

// ---------------------------------------------------------------------------------------
// native models

type nativeFn func(br *bodyRun, st *State, fn *ssa.Function, argVals []ssa.Value, args []Val, rt types.Type, x ssa.CallInstruction) Val

var natives map[string]nativeFn
var nativeModifies map[string]func(fc *FnCtx) []keySort

func init() {
	natives = map[string]nativeFn{}
	nativeModifies = map[string]func(fc *FnCtx) []keySort{}
	lock := func(set string) nativeFn {
		return func(br *bodyRun, st *State, fn *ssa.Function, av []ssa.Value, args []Val, rt types.Type, x ssa.CallInstruction) Val {
			p, ok := args[0].(PtrV)
			if !ok {
				unsup("lock on non-pointer")
			}
			br.fc.heldSet(st, p, set)
			br.fc.note("sync lock/unlock: modelled as the ghost held(m); mutual exclusion itself is assumed")
			return nil
		}
	}
	for _, n := range []string{"(*sync.Mutex).Lock", "(*sync.RWMutex).Lock", "(*sync.RWMutex).RLock"} {
		natives[n] = lock("true")
	}
	for _, n := range []string{"(*sync.Mutex).Unlock", "(*sync.RWMutex).Unlock", "(*sync.RWMutex).RUnlock"} {
		natives[n] = lock("false")
	}
	// atomics: sequential read / write of the cell
	atomicLoad := func(br *bodyRun, st *State, fn *ssa.Function, av []ssa.Value, args []Val, rt types.Type, x ssa.CallInstruction) Val {
		p := args[0].(PtrV)
		_, pt := pathNames(p.Root, p.Path)
		br.fc.note("sync/atomic operations: modelled as sequential reads and writes")
		return br.fc.load(st, p, pt)
	}
	atomicStore := func(br *bodyRun, st *State, fn *ssa.Function, av []ssa.Value, args []Val, rt types.Type, x ssa.CallInstruction) Val {
		p := args[0].(PtrV)
		_, pt := pathNames(p.Root, p.Path)
		br.fc.store(st, p, pt, args[1])
		return nil
	}
	atomicAdd := func(br *bodyRun, st *State, fn *ssa.Function, av []ssa.Value, args []Val, rt types.Type, x ssa.CallInstruction) Val {
		p := args[0].(PtrV)
		_, pt := pathNames(p.Root, p.Path)
		old := br.fc.load(st, p, pt).(Scalar).T
		nv := Scalar{br.fc.smt.define("atomic", bvsort(intWidth(pt)), app("bvadd", old, args[1].(Scalar).T))}
		br.fc.store(st, p, pt, nv)
		return nv
	}
	atomicCAS := func(br *bodyRun, st *State, fn *ssa.Function, av []ssa.Value, args []Val, rt types.Type, x ssa.CallInstruction) Val {
		p := args[0].(PtrV)
		_, pt := pathNames(p.Root, p.Path)
		old := br.fc.load(st, p, pt).(Scalar).T
		ok := br.fc.smt.define("cas", "Bool", eq(old, args[1].(Scalar).T))
		br.fc.store(st, p, pt, Scalar{ite(ok, args[2].(Scalar).T, old)})
		return Scalar{ok}
	}
	for _, ty := range []string{"Int32", "Int64", "Uint32", "Uint64"} {
		natives["sync/atomic.Load"+ty] = atomicLoad
		natives["sync/atomic.Store"+ty] = atomicStore
		natives["sync/atomic.Add"+ty] = atomicAdd
		natives["sync/atomic.CompareAndSwap"+ty] = atomicCAS
		// typed atomics: the struct has a single field v
		typed := func(op nativeFn) nativeFn {
			return func(br *bodyRun, st *State, fn *ssa.Function, av []ssa.Value, args []Val, rt types.Type, x ssa.CallInstruction) Val {
				p := args[0].(PtrV)
				_, pt := pathNames(p.Root, p.Path)
				stt := pt.Underlying().(*types.Struct)
				fi := -1
				for i := 0; i < stt.NumFields(); i++ {
					if stt.Field(i).Name() == "v" {
						fi = i
					}
				}
				if fi < 0 {
					unsup("typed atomic without field v")
				}
				np := p
				np.Path = append(append([]int(nil), p.Path...), fi)
				nargs := append([]Val{np}, args[1:]...)
				return op(br, st, fn, av, nargs, rt, x)
			}
		}
		natives["(*sync/atomic."+ty+").Load"] = typed(atomicLoad)
		natives["(*sync/atomic."+ty+").Store"] = typed(atomicStore)
		natives["(*sync/atomic."+ty+").Add"] = typed(atomicAdd)
		natives["(*sync/atomic."+ty+").CompareAndSwap"] = typed(atomicCAS)
	}
	boolField := func(p PtrV) PtrV {
		_, pt := pathNames(p.Root, p.Path)
		stt := pt.Underlying().(*types.Struct)
		for i := 0; i < stt.NumFields(); i++ {
			if stt.Field(i).Name() == "v" {
				np := p
				np.Path = append(append([]int(nil), p.Path...), i)
				return np
			}
		}
		unsup("atomic.Bool without field v")
		return p
	}
	natives["(*sync/atomic.Bool).Load"] = func(br *bodyRun, st *State, fn *ssa.Function, av []ssa.Value, args []Val, rt types.Type, x ssa.CallInstruction) Val {
		p := boolField(args[0].(PtrV))
		v := br.fc.load(st, p, types.Typ[types.Uint32]).(Scalar).T
		return Scalar{not(eq(v, bvlit(0, 32)))}
	}
	natives["(*sync/atomic.Bool).Store"] = func(br *bodyRun, st *State, fn *ssa.Function, av []ssa.Value, args []Val, rt types.Type, x ssa.CallInstruction) Val {
		p := boolField(args[0].(PtrV))
		br.fc.store(st, p, types.Typ[types.Uint32], Scalar{ite(args[1].(Scalar).T, bvlit(1, 32), bvlit(0, 32))})
		return nil
	}
	const yp = "github.com/dgraph-io/badger/v4/y."
	natives[yp+"AssertTrue"] = func(br *bodyRun, st *State, fn *ssa.Function, av []ssa.Value, args []Val, rt types.Type, x ssa.CallInstruction) Val {
		br.fc.oblige(st, args[0].(Scalar).T, br.prefix+br.fc.ordName("asserttrue", ""), "asserttrue", x.Pos(), "y.AssertTrue condition")
		// the process exits when the condition is false: execution continues only when it holds
		br.fc.assume(st, args[0].(Scalar).T)
		return nil
	}
	natives[yp+"AssertTruef"] = natives[yp+"AssertTrue"]
	natives[yp+"Check"] = func(br *bodyRun, st *State, fn *ssa.Function, av []ssa.Value, args []Val, rt types.Type, x ssa.CallInstruction) Val {
		e := args[0].(IfaceV)
		br.fc.note("y.Check(err): the process exits when err != nil; execution continues only with err == nil")
		br.fc.assume(st, eq(e.Tag, "0"))
		return nil
	}
	natives[yp+"Wrapf"] = func(br *bodyRun, st *State, fn *ssa.Function, av []ssa.Value, args []Val, rt types.Type, x ssa.CallInstruction) Val {
		e := args[0].(IfaceV)
		fc := br.fc
		fc.note("y.Wrap/Wrapf: nil stays nil, otherwise a fresh non-nil error distinct from package-level errors")
		ref := fc.newRef(st, "wrapped")
		return IfaceV{ite(eq(e.Tag, "0"), "0", fc.eng.typeTagName("wrappedError")), ite(eq(e.Tag, "0"), "0", ref)}
	}
	natives[yp+"Wrap"] = natives[yp+"Wrapf"]
	newErr := func(br *bodyRun, st *State, fn *ssa.Function, av []ssa.Value, args []Val, rt types.Type, x ssa.CallInstruction) Val {
		fc := br.fc
		fc.note("fmt.Errorf/errors.New: a fresh non-nil error distinct from package-level errors")
		ref := fc.newRef(st, "err")
		return IfaceV{fc.eng.typeTagName("freshError"), ref}
	}
	// the clock: time.Now() is an opaque value; Unix() returns an unconstrained int64 that is
	// remembered in the ghost variable "now" so that contracts can refer to it
	natives["time.Now"] = func(br *bodyRun, st *State, fn *ssa.Function, av []ssa.Value, args []Val, rt types.Type, x ssa.CallInstruction) Val {
		return br.fc.freshTyped(st, rt, "timenow")
	}
	natives["(time.Time).Unix"] = func(br *bodyRun, st *State, fn *ssa.Function, av []ssa.Value, args []Val, rt types.Type, x ssa.CallInstruction) Val {
		fc := br.fc
		fc.note("time.Now().Unix(): an unconstrained clock value (ghost variable now)")
		v := fc.smt.declare("now", bvsort(64))
		fc.keySort["ghost|now"] = bvsort(64)
		fc.touched["ghost|now"] = true
		st.heap["ghost|now"] = v
		return Scalar{v}
	}
	natives["fmt.Errorf"] = newErr
	natives["errors.New"] = newErr
	natives["github.com/pkg/errors.Errorf"] = newErr
	natives["github.com/pkg/errors.New"] = newErr
}

func (e *Engine) isPureExternal(full string) bool {
	for _, p := range pureExternals {
		if full == p || (strings.HasSuffix(p, "*") && strings.HasPrefix(full, strings.TrimSuffix(p, "*"))) {
			return true
		}
	}
	return false
}

// Calls with no effect on anything a contract mentions (logging, metrics, tracing).
var pureExternals = []string{
	"github.com/dgraph-io/badger/v4/y.NumReadsAdd", "github.com/dgraph-io/badger/v4/y.Num*",
	"github.com/dgraph-io/badger/v4/y.add", "github.com/dgraph-io/badger/v4/y.addInt",
	"(*github.com/dgraph-io/badger/v4.Options).Debugf", "(*github.com/dgraph-io/badger/v4.Options).Infof",
	"(*github.com/dgraph-io/badger/v4.Options).Warningf", "(*github.com/dgraph-io/badger/v4.Options).Errorf",
	"(github.com/dgraph-io/badger/v4.Options).Debugf", "(github.com/dgraph-io/badger/v4.Options).Infof",
	"(github.com/dgraph-io/badger/v4.Options).Warningf", "(github.com/dgraph-io/badger/v4.Options).Errorf",
	"fmt.Sprintf", "fmt.Sprint", "fmt.Printf", "fmt.Println", "log.Printf", "log.Println",
	"time.Now", "time.Since", "(time.Time).Unix", "(time.Time).Sub", "(time.Duration).Seconds",
	"go.opentelemetry.io/*", "context.Background", "context.TODO", "encoding/hex.Dump", "encoding/hex.EncodeToString",
	"(*expvar.Int).Add", "(*expvar.Map).Add",
}

var _ = fmt.Sprint
