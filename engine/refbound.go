package main

import (
	"fmt"
	"strings"
)

// refBound: every reference stored in the heap was allocated before the heap symbol came
// into being, i.e. it is <= the allocation counter at that time. This is what separates
// objects allocated later from everything reachable earlier.
func (fc *FnCtx) refBound(sym, key, sort, alloc string) {
	if alloc == "" || strings.HasSuffix(key, "#tag") || strings.HasPrefix(key, "map|") || strings.HasPrefix(key, "ghost|") {
		return
	}
	switch sort {
	case "(Array Int Int)":
		r := fc.smt.freshName("r")
		fc.smt.addExtra(sym, fmt.Sprintf("(forall ((%s Int)) (! (<= (select %s %s) %s) :pattern ((select %s %s))))", r, sym, r, alloc, sym, r))
	case "(Array Int (Array (_ BitVec 64) Int))":
		r := fc.smt.freshName("r")
		i := fc.smt.freshName("i")
		fc.smt.addExtra(sym, fmt.Sprintf("(forall ((%s Int) (%s (_ BitVec 64))) (! (<= (select (select %s %s) %s) %s) :pattern ((select (select %s %s) %s))))", r, i, sym, r, i, alloc, sym, r, i))
	}
}
