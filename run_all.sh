#!/bin/bash
# Runs every check registered in MANIFEST.json (quick tier unless $1 = thorough) and prints a summary.
cd "$(dirname "$0")"
tier="${1:-quick}"
fail=0
for p in $(jq -r '.checks[].property_id' MANIFEST.json); do
  out=$(./check "$p" "$tier" 2>&1); code=$?
  echo "$p exit=$code $(echo "$out" | grep "^property $p" | tail -1)"
  echo "$out" | grep "^VIOLATION\|^KNOWN-FINDING" | head -5
  [ $code -ne 0 ] && fail=1
done
exit $fail
