#!/usr/bin/env python3
# Regenerates MANIFEST.json from manifest_src.json (claimed checks) and validates it.
import json, sys, subprocess

def hook_commits():
    """commits of /repo that touch only the guarded hook files (zz_verif_*.go, //go:build verif)"""
    import subprocess
    try:
        out = subprocess.run(["git", "-C", "/repo", "log", "--format=%h", "--", "*zz_verif_*"], capture_output=True, text=True).stdout.split()
        return list(reversed(out))
    except Exception:
        return []
src = json.load(open('/verif/manifest_src.json'))
props = [json.loads(l) for l in open('/verif/properties.jsonl')]
ids = [p['id'] for p in props]
checks = []
for pid in ids:
    c = src['claims'].get(pid)
    if not c: continue
    checks.append({
        "property_id": pid,
        "quick_cmd": f"./check {pid} quick",
        "thorough_cmd": f"./check {pid} thorough",
        "evidence_file": f"/verif/evidence/{pid}.json",
        "replay_cmd_template": "cat {path}",
        "engine": "gvc",
        "level_claimed": {"category": "proof", "text": c['text'], "design_ref": c.get('design_ref', 'DESIGN.md section 5')},
        "level_note": c['note'],
        "technique": c.get('technique', "contract-based deductive verification: weakest-precondition obligations generated from go/ssa of the real functions, contracts in //@ comment files, discharged by z3/cvc5"),
    })
na = [{"property_id": pid, "reason": src['not_applicable'][pid]} for pid in ids if pid not in src['claims']]
for x in na:
    assert x['reason']
m = {"version": 1, "setup_cmd": "./setup.sh",
     "hooks": dict(src['hooks'], source_commits=hook_commits()),
     "engines": [{"name": "gvc", "path": "/verif/engine", "serves_properties": [c['property_id'] for c in checks],
                  "kind_free_text": "verification-condition generator for Go (go/ssa + contracts in //@ comment files) with an SMT portfolio (z3 5.1.0, cvc5 1.0, z3 4.8.12)"}],
     "checks": checks, "notes": src['notes'], "not_applicable": na}
json.dump(m, open('/verif/MANIFEST.json', 'w'), indent=1)
print("MANIFEST.json:", len(checks), "checks,", len(na), "not applicable")
