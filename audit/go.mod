module audit

go 1.23.0
