package audit

// Audit of the trusted standard-library contracts in /verif/contracts/stdlib.gvc: the
// specification functions are transcribed here and compared with the real library functions on
// boundary values and random inputs. This is testing, not proof; it guards against a trusted
// contract that misdescribes the library.

import (
	"bytes"
	"encoding/binary"
	"math/rand"
	"os"
	"strconv"
	"testing"
)

func ulen(x uint64) int {
	switch {
	case x < 1<<7:
		return 1
	case x < 1<<14:
		return 2
	case x < 1<<21:
		return 3
	case x < 1<<28:
		return 4
	case x < 1<<35:
		return 5
	case x < 1<<42:
		return 6
	case x < 1<<49:
		return 7
	case x < 1<<56:
		return 8
	case x < 1<<63:
		return 9
	}
	return 10
}

func uvLen(b []byte) int {
	for i := 0; i < 9; i++ {
		if b[i] < 0x80 {
			return i + 1
		}
	}
	if b[9] <= 1 {
		return 10
	}
	return 0
}

func uvVal(b []byte) uint64 {
	var v uint64
	for i := 0; i < 9; i++ {
		v |= uint64(b[i]&0x7f) << (7 * uint(i))
		if b[i] < 0x80 {
			return v
		}
	}
	return v | uint64(b[9]&0x01)<<63
}

func seed() int64 {
	s, _ := strconv.ParseInt(os.Getenv("VERIF_SEED"), 10, 64)
	return s + 1
}

func values(r *rand.Rand) []uint64 {
	vs := []uint64{0, 1, 127, 128, 255, 256, 1<<14 - 1, 1 << 14, 1<<21 - 1, 1 << 21, 1<<28 - 1, 1 << 28, 1<<32 - 1, 1 << 32,
		1<<35 - 1, 1 << 35, 1<<42 - 1, 1 << 42, 1<<49 - 1, 1 << 49, 1<<56 - 1, 1 << 56, 1<<63 - 1, 1 << 63, ^uint64(0)}
	for i := 0; i < 20000; i++ {
		vs = append(vs, r.Uint64()>>uint(r.Intn(64)))
	}
	return vs
}

func TestPutUvarintContract(t *testing.T) {
	r := rand.New(rand.NewSource(seed()))
	for _, x := range values(r) {
		buf := make([]byte, 16)
		for i := range buf {
			buf[i] = byte(r.Intn(256))
		}
		old := append([]byte(nil), buf...)
		n := binary.PutUvarint(buf, x)
		if n != ulen(x) || uvLen(buf) != ulen(x) || uvVal(buf) != x {
			t.Fatalf("PutUvarint(%d): n=%d ulen=%d uvLen=%d uvVal=%d", x, n, ulen(x), uvLen(buf), uvVal(buf))
		}
		if !bytes.Equal(buf[n:], old[n:]) {
			t.Fatalf("PutUvarint(%d) wrote outside [0,%d)", x, n)
		}
	}
}

func TestUvarintContract(t *testing.T) {
	r := rand.New(rand.NewSource(seed()))
	for i := 0; i < 200000; i++ {
		buf := make([]byte, 12)
		for j := range buf {
			buf[j] = byte(r.Intn(256))
			if r.Intn(3) == 0 {
				buf[j] |= 0x80
			}
		}
		n := r.Intn(13)
		b := buf[:n]
		v, k := binary.Uvarint(b)
		ok := n >= 10 || func() bool { // uvOK needs the bytes it looks at to be inside b
			for j := 0; j < n; j++ {
				if b[j] < 0x80 {
					return true
				}
			}
			return false
		}()
		if ok && uvLen(buf) > 0 && uvLen(buf) <= n {
			if v != uvVal(buf) || k != uvLen(buf) {
				t.Fatalf("Uvarint(% x): got (%d,%d) spec (%d,%d)", b, v, k, uvVal(buf), uvLen(buf))
			}
		}
		if k > n || k > 10 || k < -11 {
			t.Fatalf("Uvarint(% x): count %d out of range", b, k)
		}
		if !(uvLen(buf) > 0 && uvLen(buf) <= n) && ok && k > 0 {
			t.Fatalf("Uvarint(% x): positive count %d although the spec says malformed", b, k)
		}
	}
}

func be64(b []byte) uint64 {
	return uint64(b[0])<<56 | uint64(b[1])<<48 | uint64(b[2])<<40 | uint64(b[3])<<32 | uint64(b[4])<<24 | uint64(b[5])<<16 | uint64(b[6])<<8 | uint64(b[7])
}

func TestBigEndianAndCompareContracts(t *testing.T) {
	r := rand.New(rand.NewSource(seed()))
	for i := 0; i < 200000; i++ {
		a, b := make([]byte, 8), make([]byte, 8)
		r.Read(a)
		r.Read(b)
		if r.Intn(4) == 0 {
			copy(b, a[:r.Intn(9)])
		}
		if binary.BigEndian.Uint64(a) != be64(a) {
			t.Fatal("be64")
		}
		buf := make([]byte, 8)
		binary.BigEndian.PutUint64(buf, be64(a))
		if !bytes.Equal(buf, a) {
			t.Fatal("PutUint64")
		}
		c := bytes.Compare(a, b)
		want := 1
		if be64(a) < be64(b) {
			want = -1
		} else if be64(a) == be64(b) {
			want = 0
		}
		if c != want {
			t.Fatalf("lexcmp8: Compare(% x, % x) = %d, big-endian order says %d", a, b, c, want)
		}
		if (c == 0) != bytes.Equal(a, b) || c < -1 || c > 1 {
			t.Fatal("lexcmp range / equality")
		}
		// hasPrefix
		n := r.Intn(9)
		if bytes.HasPrefix(a, b[:n]) != (len(a) >= n && bytes.Equal(a[:n], b[:n])) {
			t.Fatal("hasPrefix")
		}
	}
}
