#!/bin/bash
# Audit of trusted contracts (testing, not proof). Prints AUDIT ok / AUDIT FAILED.
cd "$(dirname "$0")"
export GOFLAGS=-mod=mod GOPROXY=off GOSUMDB=off GOTOOLCHAIN=local
if go test -count=1 . > /tmp/gvc-audit.$$ 2>&1; then echo "AUDIT ok: trusted stdlib contracts agree with the library on boundary and random inputs"; rm -f /tmp/gvc-audit.$$; exit 0; fi
echo "AUDIT FAILED"; cat /tmp/gvc-audit.$$; rm -f /tmp/gvc-audit.$$; exit 1
